(* C02 / C03: PostgreSQL's grammar (PgModel.pg_parse) reads from the token sequence the renderer writes for a tree of the
   filterable fragment exactly the expression Spec/SqlFrag.tr assigns to it - the same Boolean combination of the same leaf
   predicates, with PostgreSQL's precedences taken into account. For every tree of the fragment, of any depth. *)
Require Import Parser ParserShape Render PgModel QuerySem SqlFrag.
From Coq Require Import List Ascii String ZArith Bool Lia Arith.
Import ListNotations.
Open Scope string_scope.
Open Scope nat_scope.

(* ---- the parser, unfolded one level: its primary and its infix loop as functions of the recursive call ---- *)
Definition prim_of (E : nat -> bool -> list tok -> pres) (restricted : bool) (ts : list tok) : pres :=
  match ts with
  | TKw KNot :: r => if restricted then PFail "NOT in b_expr" else
                     match E 3 false r with POk a r' => POk (ANot a) r' | e => e end
  | TOp o :: r =>
      if beq o (str "-") then match E 10 restricted r with POk a r' => POk (negate a) r' | e => e end
      else if beq o (str "+") then match E 10 restricted r with POk a r' => POk (AUnary o a) r' | e => e end
      else if cmp_op o || muldiv o || beq o (str "^") then PFail "not a prefix operator"
      else match E 7 restricted r with POk a r' => POk (AUnary o a) r' | e => e end
  | TLP :: r => match E 0 false r with
                | POk a (TRP :: r') => POk a r'
                | POk _ _ => PFail "expected )"
                | e => e end
  | TIdent s :: r => POk (ACol s) r
  | TStr s :: r => POk (AStr s) r
  | TNum s :: r => POk (ANum false s) r
  | TParam k :: r => POk (AParam k) r
  | _ => PFail "syntax error"
  end.

Section Loop.
Variable E : nat -> bool -> list tok -> pres.
Variable minp : nat.
Variable restricted : bool.

Fixpoint loop (k : nat) (l : ast) (rest : list tok) (lastcmp : bool) {struct k} : pres :=
  match k with
  | 0 => PFail "fuel"
  | S k' =>
    match rest with
    | TKw KOr :: r => if restricted || (1 <? minp) then POk l rest else
        match E 2 false r with POk x r' => loop k' (mk_or l x) r' false | e => e end
    | TKw KAnd :: r => if restricted || (2 <? minp) then POk l rest else
        match E 3 false r with POk x r' => loop k' (mk_and l x) r' false | e => e end
    | TOp o :: r =>
        if cmp_op o then
          if (4 <? minp) then POk l rest else if lastcmp then PFail "non-associative comparison" else
          match E 5 restricted r with POk x r' => loop k' (AOp o l x) r' true | e => e end
        else if addsub o then
          if (7 <? minp) then POk l rest else
          match E 8 restricted r with POk x r' => loop k' (AOp o l x) r' false | e => e end
        else if muldiv o then
          if (8 <? minp) then POk l rest else
          match E 9 restricted r with POk x r' => loop k' (AOp o l x) r' false | e => e end
        else if beq o (str "^") then
          if (9 <? minp) then POk l rest else
          match E 10 restricted r with POk x r' => loop k' (AOp o l x) r' false | e => e end
        else
          if (6 <? minp) then POk l rest else
          match E 7 restricted r with POk x r' => loop k' (AOp o l x) r' false | e => e end
    | TKw KBetween :: r => if restricted || (5 <? minp) then POk l rest else
        match E 6 true r with
        | POk lo (TKw KAnd :: r2) =>
            match E 6 false r2 with POk hi r3 => loop k' (ABetween l lo hi) r3 false | e => e end
        | POk _ _ => PFail "expected AND in BETWEEN"
        | e => e end
    | TKw KIn :: TLP :: r => if restricted || (5 <? minp) then POk l rest else
        (fix items (j : nat) (r : list tok) (acc : list ast) {struct j} : pres :=
           match j with
           | 0 => PFail "fuel"
           | S j' => match E 0 false r with
                     | POk x (TComma :: r') => items j' r' (x :: acc)
                     | POk x (TRP :: r') => loop k' (AIn l (rev (x :: acc))) r' false
                     | POk _ _ => PFail "expected , or )"
                     | e => e end
           end) (S (List.length r)) r []
    | TKw KSimilar :: TKw KTo :: r => if restricted || (5 <? minp) then POk l rest else
        match E 6 false r with POk p r' => loop k' (ASimilar l p) r' false | e => e end
    | _ => POk l rest
    end
  end.
End Loop.

Lemma expr_S f minp rs ts :
  PgModel.expr (S f) minp rs ts =
  match prim_of (PgModel.expr f) rs ts with
  | PFail w => PFail w
  | POk l rest => loop (PgModel.expr f) minp rs (S (List.length rest)) l rest false
  end.
Proof. reflexivity. Qed.

(* ---- where the infix loop stops ---- *)
Definition stop (minp : nat) (rest : list tok) : Prop :=
  match rest with
  | [] | TRP :: _ | TComma :: _ => True
  | TKw KAnd :: _ => 2 < minp
  | _ => False
  end.

Lemma loop_stop E minp rs k l rest lc : stop minp rest -> loop E minp rs (S k) l rest lc = POk l rest.
Proof.
  intros H. destruct rest as [|t r]; [reflexivity|]. destruct t as [?|?|?|?|?|kw| | | |?]; cbn in H; try contradiction; try reflexivity.
  destruct kw; try contradiction. cbn [loop]. apply Nat.ltb_lt in H. rewrite H. rewrite orb_true_r. reflexivity.
Qed.

Lemma stop_mono a b rest : a <= b -> stop a rest -> stop b rest.
Proof. intros L H. destruct rest as [|t r]; [exact I|]. destruct t as [?|?|?|?|?|kw| | | |?]; cbn in *; auto. destruct kw; auto. lia. Qed.

(* a primary that is a single token, followed by a stopping rest *)
Lemma expr_atom f minp rs t a rest :
  prim_of (PgModel.expr f) rs (t :: rest) = POk a rest -> stop minp rest -> PgModel.expr (S f) minp rs (t :: rest) = POk a rest.
Proof. intros P H. rewrite expr_S, P. apply loop_stop. exact H. Qed.

Lemma stop_hi minp rest : stop minp rest -> stop 10 rest.
Proof. intros H. destruct rest as [|t r]; [exact I|]. destruct t as [?|?|?|?|?|kw| | | |?]; cbn in *; auto. destruct kw; auto. lia. Qed.

(* ---- constants ---- *)
Lemma const_parses lf tc ac : const_sql lf = Some (tc, ac) ->
  forall f minp rs rest, stop minp rest -> PgModel.expr (S (S f)) minp rs (tc ++ rest) = POk ac rest.
Proof.
  intros C f minp rs rest H.
  destruct lf as [l op r b fz]. destruct l; try discriminate; destruct op; try discriminate; destruct r; try discriminate; cbn in C.
  - (* integer *) inversion C; subst. unfold int_toks, int_ast. destruct (z <? 0)%Z.
    + cbn [app]. rewrite expr_S. cbn [prim_of].
      change (beq (str "-") (str "-")) with true. cbv iota.
      rewrite (expr_atom f 10 rs (TNum (nat_digits (- z))) (ANum false (nat_digits (- z))) rest eq_refl (stop_hi minp rest H)).
      cbn [negate negb]. apply loop_stop. exact H.
    + cbn [app]. apply expr_atom; [reflexivity|exact H].
  - (* string *) inversion C; subst. cbn [app]. apply expr_atom; [reflexivity|exact H].
Qed.

Lemma const_nonempty lf tc ac : const_sql lf = Some (tc, ac) -> exists t tc', tc = t :: tc'.
Proof.
  destruct lf as [l op r b fz]. destruct l; try discriminate; destruct op; try discriminate; destruct r; try discriminate; cbn; intros C; inversion C; subst.
  - unfold int_toks. destruct (z <? 0)%Z; eauto.
  - eauto.
Qed.

Definition stop0 (rest : list tok) : Prop := match rest with [] | TRP :: _ | TComma :: _ => True | _ => False end.
Lemma stop0_any minp rest : stop0 rest -> stop minp rest.
Proof. destruct rest as [|t r]; [auto|]. destruct t; cbn; auto; contradiction. Qed.

(* ( X ) *)
Lemma paren_parses f minp rs ts a rest :
  PgModel.expr f 0 false (ts ++ TRP :: rest) = POk a (TRP :: rest) -> stop minp rest ->
  PgModel.expr (S f) minp rs (TLP :: ts ++ TRP :: rest) = POk a rest.
Proof. intros P H. rewrite expr_S. cbn [prim_of]. rewrite P. apply loop_stop. exact H. Qed.

(* unfolding the loop on its first token *)
Lemma loop_cmp E minp rs k l o r : cmp_op o = true -> (4 <? minp) = false ->
  loop E minp rs (S k) l (TOp o :: r) false = match E 5 rs r with POk x r' => loop E minp rs k (AOp o l x) r' true | e => e end.
Proof. intros H M. cbn [loop]. rewrite H, M. reflexivity. Qed.
Lemma loop_and E minp k l r lc : (2 <? minp) = false ->
  loop E minp false (S k) l (TKw KAnd :: r) lc = match E 3 false r with POk x r' => loop E minp false k (mk_and l x) r' false | e => e end.
Proof. intros M. cbn [loop]. rewrite M. reflexivity. Qed.
Lemma loop_or E minp k l r lc : (1 <? minp) = false ->
  loop E minp false (S k) l (TKw KOr :: r) lc = match E 2 false r with POk x r' => loop E minp false k (mk_or l x) r' false | e => e end.
Proof. intros M. cbn [loop]. rewrite M. reflexivity. Qed.
Lemma loop_similar E minp k l r lc : (5 <? minp) = false ->
  loop E minp false (S k) l (TKw KSimilar :: TKw KTo :: r) lc = match E 6 false r with POk p r' => loop E minp false k (ASimilar l p) r' false | e => e end.
Proof. intros M. cbn [loop]. rewrite M. reflexivity. Qed.

(* column op constant *)
Lemma cmp_parses f minp o fld lf tc ac rest :
  cmp_op (str o) = true -> const_sql lf = Some (tc, ac) -> minp <= 4 -> stop minp rest ->
  PgModel.expr (S (S (S f))) minp false (TIdent fld :: TOp (str o) :: tc ++ rest) = POk (AOp (str o) (ACol fld) ac) rest.
Proof.
  intros Hc C Hm H. rewrite expr_S. cbn [prim_of]. cbn [List.length].
  assert (M : (4 <? minp) = false) by (apply Nat.ltb_ge; lia).
  rewrite (loop_cmp _ _ _ _ _ _ _ Hc M).
  rewrite (const_parses lf tc ac C f 5 false rest (stop_mono minp 5 rest ltac:(lia) H)).
  destruct (const_nonempty lf tc ac C) as [t [tc' ->]]. cbn [app List.length]. apply loop_stop. exact H.
Qed.

(* the IN list *)
Section Items.
Variable E : nat -> bool -> list tok -> pres.
Variable K : list ast -> list tok -> pres.
Fixpoint items (j : nat) (r : list tok) (acc : list ast) {struct j} : pres :=
  match j with
  | 0 => PFail "fuel"
  | S j' => match E 0 false r with
            | POk x (TComma :: r') => items j' r' (x :: acc)
            | POk x (TRP :: r') => K (rev (x :: acc)) r'
            | POk _ _ => PFail "expected , or )"
            | e => e end
  end.
End Items.

Lemma loop_in E minp k l r lc : (5 <? minp) = false ->
  loop E minp false (S k) l (TKw KIn :: TLP :: r) lc = items E (fun its r' => loop E minp false k (AIn l its) r' false) (S (List.length r)) r [].
Proof. intros M. cbn [loop]. rewrite M. cbn [orb]. reflexivity. Qed.

Lemma items_parses f K : forall l ts as_, consts_sql l = Some (ts, as_) -> l <> [] ->
  forall j rest acc, List.length ts <= j ->
  items (PgModel.expr (S (S f))) K j (comma_join ts ++ TRP :: rest) acc = K (rev acc ++ as_)%list rest.
Proof.
  induction l as [|x l IH]; intros ts as_ C Ne j rest acc Hj; [contradiction|].
  cbn [consts_sql] in C. destruct (const_sql x) as [[t a]|] eqn:Cx; [|discriminate].
  destruct (consts_sql l) as [[ts' as']|] eqn:Cl; [|discriminate]. inversion C; subst. clear C.
  destruct j as [|j]; [cbn in Hj; lia|]. cbn [items].
  destruct l as [|y l'].
  - cbn in Cl. inversion Cl; subst. cbn [comma_join].
    rewrite (const_parses x t a Cx f 0 false (TRP :: rest) I). reflexivity.
  - assert (exists t2 ts2, ts' = t2 :: ts2) as [t2 [ts2 ->]].
    { cbn in Cl. destruct (const_sql y) as [[ty ay]|]; [|discriminate]. destruct (consts_sql l') as [[a1 a2]|]; [|discriminate]. inversion Cl; eauto. }
    change (comma_join (t :: t2 :: ts2)) with (t ++ TComma :: comma_join (t2 :: ts2))%list.
    rewrite <- app_assoc. cbn [app].
    rewrite (const_parses x t a Cx f 0 false (TComma :: comma_join (t2 :: ts2) ++ TRP :: rest) I).
    rewrite (IH (t2 :: ts2) as' eq_refl ltac:(discriminate) j rest (a :: acc)); [|cbn in Hj |- *; lia].
    cbn [rev]. rewrite <- app_assoc. reflexivity.
Qed.

(* ---- fuel a tree needs ---- *)
Fixpoint need (e : Parser.expr) : nat :=
  match e with
  | E l op r _ _ =>
    match op with
    | And | Or => 2 + Nat.max (need_v l) (need_v r)
    | Not | MustNot => 2 + need_v l
    | Must => need_v l
    | _ => 4
    end
  end
with need_v (v : value) : nat := match v with VExp e => need e | _ => 0 end.

Lemma cmp_text_op op o : cmp_text op = Some o -> cmp_op (str o) = true.
Proof. destruct op; cbn; intros H; inversion H; reflexivity. Qed.

Lemma int_const z : const_sql (E (VInt z) Literal VNil 0%Z 0%Z) = Some (int_toks z, int_ast z).
Proof. reflexivity. Qed.

Lemma tr_eq l op rt b fz : tr (E l op rt b fz) =
    match op with
    | And | Or =>
        match l, rt with
        | VExp x, VExp y =>
            match tr x, tr y with
            | Some (tx, ax), Some (ty, ay) =>
                Some (TLP :: tx ++ TRP :: TKw (match op with And => KAnd | _ => KOr end) :: TLP :: ty ++ [TRP],
                      match op with And => mk_and ax ay | _ => mk_or ax ay end)
            | _, _ => None
            end
        | _, _ => None
        end
    | Not | MustNot =>
        match l, rt with
        | VExp x, VNil => match tr x with Some (tx, ax) => Some (TKw KNot :: TLP :: tx ++ [TRP], ANot ax) | None => None end
        | _, _ => None
        end
    | Must => match l, rt with VExp x, VNil => tr x | _, _ => None end
    | Equals | Greater | Less | GreaterEq | LessEq =>
        match field_of l, rt, cmp_text op with
        | Some f, VExp lf, Some o =>
            match const_sql lf with
            | Some (tc, ac) => Some (TIdent (str f) :: TOp (str o) :: tc, AOp (str o) (ACol (str f)) ac)
            | None => None
            end
        | _, _, _ => None
        end
    | Like =>
        match field_of l, rt with
        | Some f, VExp (E (VStr p) Wild VNil _ _) =>
            Some ([TIdent (str f); TKw KSimilar; TKw KTo; TStr (str (translate p))], ASimilar (ACol (str f)) (AStr (str (translate p))))
        | _, _ => None
        end
    | Tables.In =>
        match field_of l, rt with
        | Some f, VExp (E (VList (x :: lits)) Tables.List VNil _ _) =>
            match consts_sql (x :: lits) with
            | Some (ts, as_) => Some (TIdent (str f) :: TKw KIn :: TLP :: comma_join ts ++ [TRP], AIn (ACol (str f)) as_)
            | None => None
            end
        | _, _ => None
        end
    | Range =>
        match field_of l, rt with
        | Some f, VBound lo hi incl =>
            let c := TIdent (str f) in
            let ge := str (if incl then ">=" else ">") in
            let le := str (if incl then "<=" else "<") in
            match int_bound lo, int_bound hi, is_star lo, is_star hi with
            | Some a, Some b, _, _ =>
                Some (c :: TOp ge :: int_toks a ++ TKw KAnd :: c :: TOp le :: int_toks b,
                      ABool true [AOp ge (ACol (str f)) (int_ast a); AOp le (ACol (str f)) (int_ast b)])
            | None, Some b, true, _ => Some (c :: TOp le :: int_toks b, AOp le (ACol (str f)) (int_ast b))
            | Some a, None, _, true => Some (c :: TOp ge :: int_toks a, AOp ge (ACol (str f)) (int_ast a))
            | _, _, _, _ => None
            end
        | _, _ => None
        end
    | _ => None
    end.
Proof. reflexivity. Qed.

Lemma ge_cmp (incl : bool) : cmp_op (str (if incl then ">=" else ">")) = true. Proof. destruct incl; reflexivity. Qed.
Lemma le_cmp (incl : bool) : cmp_op (str (if incl then "<=" else "<")) = true. Proof. destruct incl; reflexivity. Qed.

Lemma consts_length l : forall ts as_, consts_sql l = Some (ts, as_) -> List.length ts = List.length l.
Proof.
  induction l as [|x l IH]; intros ts as_ C; cbn in C; [inversion C; reflexivity|].
  destruct (const_sql x) as [[t a]|]; [|discriminate]. destruct (consts_sql l) as [[ts' as']|]; [|discriminate].
  inversion C; subst. cbn. rewrite (IH ts' as' eq_refl). reflexivity.
Qed.
Lemma comma_join_length ts : List.length ts <= S (List.length (comma_join ts)).
Proof.
  induction ts as [|t ts IH]; [cbn; lia|]. destruct ts as [|t2 ts']; [cbn; lia|].
  change (comma_join (t :: t2 :: ts')) with (t ++ TComma :: comma_join (t2 :: ts'))%list. rewrite app_length. cbn [List.length] in *. lia.
Qed.

Definition tr_cmp (l rt : value) (o : string) : option (list tok * ast) :=
  match field_of l, rt with
  | Some f, VExp lf =>
      match const_sql lf with
      | Some (tc, ac) => Some (TIdent (str f) :: TOp (str o) :: tc, AOp (str o) (ACol (str f)) ac)
      | None => None
      end
  | _, _ => None
  end.
Lemma tr_cmp_eq l op rt b fz o : cmp_text op = Some o -> tr (E l op rt b fz) = tr_cmp l rt o.
Proof.
  intros H. rewrite tr_eq. unfold tr_cmp. destruct op; try discriminate; cbn [cmp_text] in *; inversion H; subst;
  destruct (field_of l); try reflexivity; destruct rt; reflexivity.
Qed.
Lemma tr_cmp_parses l rt o ts a f rest : tr_cmp l rt o = Some (ts, a) -> cmp_op (str o) = true -> stop0 rest ->
  PgModel.expr (S (S (S f))) 0 false (ts ++ rest) = POk a rest.
Proof.
  unfold tr_cmp. intros T Hc Hr. destruct (field_of l) as [fl|]; [|discriminate].
  destruct rt as [ |?|?|?|?|?|lf|?|? ? ?]; try discriminate.
  destruct (const_sql lf) as [[tc ac]|] eqn:C; [|discriminate]. inversion T; subst; clear T.
  cbn [app]. apply cmp_parses with (lf := lf); [exact Hc | exact C | lia | apply stop0_any; exact Hr].
Qed.
Ltac cmp_case o :=
  match goal with T : tr (E ?l ?op ?rt ?b ?fz) = Some _, Hf : need _ <= ?f |- _ =>
    rewrite (tr_cmp_eq l op rt b fz o eq_refl) in T; cbn [need] in Hf; destruct f as [|[|[|f]]]; try lia;
    apply (tr_cmp_parses l rt o _ _ _ _ T eq_refl); assumption end.

Lemma not_parses f tx ax rest : PgModel.expr f 0 false (tx ++ TRP :: rest) = POk ax (TRP :: rest) -> stop0 rest ->
  PgModel.expr (S (S f)) 0 false (TKw KNot :: TLP :: tx ++ TRP :: rest) = POk (ANot ax) rest.
Proof.
  intros P Hr. rewrite expr_S. cbn [prim_of].
  rewrite (paren_parses f 3 false tx ax rest P (stop0_any 3 rest Hr)). apply loop_stop. apply stop0_any. exact Hr.
Qed.

Lemma int_toks_nonempty z : exists t r, int_toks z = t :: r.
Proof. unfold int_toks. destruct (z <? 0)%Z; eauto. Qed.

Lemma range2_parses f fl (incl : bool) a b rest : stop0 rest ->
  PgModel.expr (S (S (S (S f)))) 0 false
    (TIdent fl :: TOp (str (if incl then ">=" else ">")) :: int_toks a ++ TKw KAnd :: TIdent fl :: TOp (str (if incl then "<=" else "<")) :: int_toks b ++ rest)
  = POk (ABool true [AOp (str (if incl then ">=" else ">")) (ACol fl) (int_ast a); AOp (str (if incl then "<=" else "<")) (ACol fl) (int_ast b)]) rest.
Proof.
  intros Hr. rewrite expr_S. cbn [prim_of]. cbn [List.length].
  rewrite (loop_cmp _ 0 _ _ _ _ _ (ge_cmp incl) eq_refl).
  rewrite (const_parses _ _ _ (int_const a) (S f) 5 false (TKw KAnd :: TIdent fl :: TOp (str (if incl then "<=" else "<")) :: int_toks b ++ rest) ltac:(cbn; lia)).
  destruct (int_toks_nonempty a) as [ta [ra Ea]]. rewrite Ea. cbn [app List.length].
  rewrite loop_and by reflexivity.
  rewrite (cmp_parses f 3 (if incl then "<=" else "<") fl _ _ _ rest (le_cmp incl) (int_const b) ltac:(lia) (stop0_any 3 rest Hr)).
  cbn [mk_and]. rewrite app_length. cbn [List.length]. rewrite Nat.add_succ_r. apply loop_stop. apply stop0_any. exact Hr.
Qed.

Theorem tr_parses_sz : forall n e, esize e <= n -> forall ts a, tr e = Some (ts, a) ->
  forall f rest, stop0 rest -> need e <= f -> PgModel.expr f 0 false (ts ++ rest) = POk a rest.
Proof.
  induction n as [|n IH]; intros e Hn ts a T f rest Hr Hf; [destruct e; cbn in Hn; lia|].
  destruct e as [l op rt b fz]. cbn [esize] in Hn.
  destruct op; try (rewrite tr_eq in T; discriminate).
  - (* And *) rewrite tr_eq in T.
    destruct l as [ |?|?|?|?|?|x|?|? ? ?]; try discriminate. destruct rt as [ |?|?|?|?|?|y|?|? ? ?]; try discriminate.
    destruct (tr x) as [[tx ax]|] eqn:Tx; [|discriminate]. destruct (tr y) as [[ty ay]|] eqn:Ty; [|discriminate].
    inversion T; subst; clear T. cbn [need need_v] in Hf. cbn [vsize] in Hn.
    destruct f as [|[|f]]; try lia.
    cbn [app]. repeat (rewrite <- app_assoc; cbn [app]).
    rewrite expr_S. cbn [prim_of].
    rewrite (IH x ltac:(lia) tx ax Tx (S f) (TRP :: TKw KAnd :: TLP :: ty ++ TRP :: rest) I ltac:(lia)).
    cbn [List.length]. rewrite loop_and by reflexivity.
    rewrite (paren_parses f 3 false ty ay rest (IH y ltac:(lia) ty ay Ty f (TRP :: rest) I ltac:(lia)) (stop0_any 3 rest Hr)).
    rewrite app_length. cbn [List.length]. rewrite Nat.add_succ_r. apply loop_stop. apply stop0_any. exact Hr.
  - (* Or *) rewrite tr_eq in T.
    destruct l as [ |?|?|?|?|?|x|?|? ? ?]; try discriminate. destruct rt as [ |?|?|?|?|?|y|?|? ? ?]; try discriminate.
    destruct (tr x) as [[tx ax]|] eqn:Tx; [|discriminate]. destruct (tr y) as [[ty ay]|] eqn:Ty; [|discriminate].
    inversion T; subst; clear T. cbn [need need_v] in Hf. cbn [vsize] in Hn.
    destruct f as [|[|f]]; try lia.
    cbn [app]. repeat (rewrite <- app_assoc; cbn [app]).
    rewrite expr_S. cbn [prim_of].
    rewrite (IH x ltac:(lia) tx ax Tx (S f) (TRP :: TKw KOr :: TLP :: ty ++ TRP :: rest) I ltac:(lia)).
    cbn [List.length]. rewrite loop_or by reflexivity.
    rewrite (paren_parses f 2 false ty ay rest (IH y ltac:(lia) ty ay Ty f (TRP :: rest) I ltac:(lia)) (stop0_any 2 rest Hr)).
    rewrite app_length. cbn [List.length]. rewrite Nat.add_succ_r. apply loop_stop. apply stop0_any. exact Hr.
  - (* Equals *) cmp_case "=".
  - (* Like *) rewrite tr_eq in T.
    destruct (field_of l) as [fl|] eqn:Fl; [|discriminate].
    destruct rt as [ |?|?|?|?|?|p|?|? ? ?]; try discriminate. destruct p as [l2 op2 r2 b2 f2].
    destruct l2; try discriminate; destruct op2; try discriminate; destruct r2; try discriminate.
    inversion T; subst; clear T. cbn [need] in Hf. destruct f as [|[|f]]; try lia.
    cbn [app]. rewrite expr_S. cbn [prim_of]. cbn [List.length]. rewrite loop_similar by reflexivity.
    rewrite (expr_atom f 6 false (TStr (str (translate s))) (AStr (str (translate s))) rest eq_refl (stop0_any 6 rest Hr)).
    apply loop_stop. apply stop0_any. exact Hr.
  - (* Not *) rewrite tr_eq in T.
    destruct l as [ |?|?|?|?|?|x|?|? ? ?]; try discriminate. destruct rt; try discriminate.
    destruct (tr x) as [[tx ax]|] eqn:Tx; [|discriminate]. inversion T; subst; clear T.
    cbn [need need_v] in Hf. cbn [vsize] in Hn. destruct f as [|[|f]]; try lia.
    cbn [app]. repeat (rewrite <- app_assoc; cbn [app]).
    apply not_parses; [apply (IH x ltac:(lia) tx ax Tx f (TRP :: rest) I ltac:(lia)) | exact Hr].
  - (* Range *) rewrite tr_eq in T.
    destruct (field_of l) as [fl|] eqn:Fl; [|discriminate].
    destruct rt as [ |?|?|?|?|?|?|?|lo hi incl]; try discriminate. cbv zeta in T.
    destruct (int_bound lo) as [a0|] eqn:Ba; destruct (int_bound hi) as [b0|] eqn:Bb; destruct (is_star lo); destruct (is_star hi);
      try discriminate; inversion T; subst; clear T; cbn [need] in Hf; destruct f as [|[|[|[|f]]]]; try lia.
    all: try (cbn [app]; apply cmp_parses with (lf := E (VInt b0) Literal VNil 0%Z 0%Z); [apply le_cmp | reflexivity | lia | apply stop0_any; exact Hr]).
    all: try (cbn [app]; apply cmp_parses with (lf := E (VInt a0) Literal VNil 0%Z 0%Z); [apply ge_cmp | reflexivity | lia | apply stop0_any; exact Hr]).
    all: cbn [app]; repeat (rewrite <- app_assoc; cbn [app]); apply range2_parses; exact Hr.
  - (* Must *) rewrite tr_eq in T.
    destruct l as [ |?|?|?|?|?|x|?|? ? ?]; try discriminate. destruct rt; try discriminate.
    cbn [need need_v] in Hf. cbn [vsize] in Hn. apply (IH x ltac:(lia) ts a T f rest Hr Hf).
  - (* MustNot *) rewrite tr_eq in T.
    destruct l as [ |?|?|?|?|?|x|?|? ? ?]; try discriminate. destruct rt; try discriminate.
    destruct (tr x) as [[tx ax]|] eqn:Tx; [|discriminate]. inversion T; subst; clear T.
    cbn [need need_v] in Hf. cbn [vsize] in Hn. destruct f as [|[|f]]; try lia.
    cbn [app]. repeat (rewrite <- app_assoc; cbn [app]).
    apply not_parses; [apply (IH x ltac:(lia) tx ax Tx f (TRP :: rest) I ltac:(lia)) | exact Hr].
  - cmp_case ">".
  - cmp_case "<".
  - cmp_case ">=".
  - cmp_case "<=".
  - (* In *) rewrite tr_eq in T.
    destruct (field_of l) as [fl|] eqn:Fl; [|discriminate].
    destruct rt as [ |?|?|?|?|?|p|?|? ? ?]; try discriminate. destruct p as [l2 op2 r2 b2 f2].
    destruct l2 as [ |?|?|?|?|?|?|lits|? ? ?]; try discriminate. destruct lits as [|x lits]; try discriminate.
    destruct op2; try discriminate; destruct r2; try discriminate.
    destruct (consts_sql (x :: lits)) as [[cts cas]|] eqn:C; [|discriminate].
    inversion T; subst; clear T. cbn [need] in Hf. destruct f as [|[|[|f]]]; try lia.
    cbn [app]. repeat (rewrite <- app_assoc; cbn [app]).
    rewrite expr_S. cbn [prim_of]. cbn [List.length]. rewrite loop_in by reflexivity.
    rewrite (items_parses f _ (x :: lits) cts cas C ltac:(discriminate)).
    + cbn [rev app]. apply loop_stop. apply stop0_any. exact Hr.
    + rewrite app_length. pose proof (comma_join_length cts). lia.
Qed.

Lemma need_le_sz : forall n e, esize e <= n -> forall ts a, tr e = Some (ts, a) -> need e <= S (S (List.length ts)).
Proof.
  induction n as [|n IH]; intros e Hn ts a T; [destruct e; cbn in Hn; lia|].
  destruct e as [l op rt b fz]. cbn [esize] in Hn. rewrite tr_eq in T.
  destruct op; try discriminate.
  - destruct l as [ |?|?|?|?|?|x|?|? ? ?]; try discriminate. destruct rt as [ |?|?|?|?|?|y|?|? ? ?]; try discriminate.
    destruct (tr x) as [[tx ax]|] eqn:Tx; [|discriminate]. destruct (tr y) as [[ty ay]|] eqn:Ty; [|discriminate].
    inversion T; subst; clear T. cbn [need need_v vsize] in *.
    pose proof (IH x ltac:(lia) tx ax Tx). pose proof (IH y ltac:(lia) ty ay Ty).
    cbn [List.length]. rewrite app_length. cbn [List.length]. rewrite app_length. cbn [List.length]. lia.
  - destruct l as [ |?|?|?|?|?|x|?|? ? ?]; try discriminate. destruct rt as [ |?|?|?|?|?|y|?|? ? ?]; try discriminate.
    destruct (tr x) as [[tx ax]|] eqn:Tx; [|discriminate]. destruct (tr y) as [[ty ay]|] eqn:Ty; [|discriminate].
    inversion T; subst; clear T. cbn [need need_v vsize] in *.
    pose proof (IH x ltac:(lia) tx ax Tx). pose proof (IH y ltac:(lia) ty ay Ty).
    cbn [List.length]. rewrite app_length. cbn [List.length]. rewrite app_length. cbn [List.length]. lia.
  - (* Equals *) destruct (field_of l); [|discriminate]. destruct rt; try discriminate. cbn [cmp_text] in T.
    destruct (const_sql e) as [[tc ac]|]; [|discriminate]. inversion T; subst. cbn. lia.
  - (* Like *) destruct (field_of l); [|discriminate]. destruct rt; try discriminate. destruct e as [l2 op2 r2 b2 f2].
    destruct l2; try discriminate; destruct op2; try discriminate; destruct r2; try discriminate. inversion T; subst. cbn. lia.
  - (* Not *) destruct l as [ |?|?|?|?|?|x|?|? ? ?]; try discriminate. destruct rt; try discriminate.
    destruct (tr x) as [[tx ax]|] eqn:Tx; [|discriminate]. inversion T; subst; clear T. cbn [need need_v vsize] in *.
    pose proof (IH x ltac:(lia) tx ax Tx). cbn [List.length]. rewrite app_length. cbn [List.length]. lia.
  - (* Range *) destruct (field_of l); [|discriminate]. destruct rt; try discriminate. cbv zeta in T.
    destruct (int_bound rt1); destruct (int_bound rt2); destruct (is_star rt1); destruct (is_star rt2); try discriminate; inversion T; subst; cbn [need List.length]; lia.
  - (* Must *) destruct l as [ |?|?|?|?|?|x|?|? ? ?]; try discriminate. destruct rt; try discriminate. cbn [need need_v vsize] in *.
    apply (IH x ltac:(lia) ts a T).
  - (* MustNot *) destruct l as [ |?|?|?|?|?|x|?|? ? ?]; try discriminate. destruct rt; try discriminate.
    destruct (tr x) as [[tx ax]|] eqn:Tx; [|discriminate]. inversion T; subst; clear T. cbn [need need_v vsize] in *.
    pose proof (IH x ltac:(lia) tx ax Tx). cbn [List.length]. rewrite app_length. cbn [List.length]. lia.
  - destruct (field_of l); [|discriminate]. destruct rt; try discriminate. cbn [cmp_text] in T.
    destruct (const_sql e) as [[tc ac]|]; [|discriminate]. inversion T; subst. cbn. lia.
  - destruct (field_of l); [|discriminate]. destruct rt; try discriminate. cbn [cmp_text] in T.
    destruct (const_sql e) as [[tc ac]|]; [|discriminate]. inversion T; subst. cbn. lia.
  - destruct (field_of l); [|discriminate]. destruct rt; try discriminate. cbn [cmp_text] in T.
    destruct (const_sql e) as [[tc ac]|]; [|discriminate]. inversion T; subst. cbn. lia.
  - destruct (field_of l); [|discriminate]. destruct rt; try discriminate. cbn [cmp_text] in T.
    destruct (const_sql e) as [[tc ac]|]; [|discriminate]. inversion T; subst. cbn. lia.
  - (* In *) destruct (field_of l); [|discriminate]. destruct rt; try discriminate. destruct e as [l2 op2 r2 b2 f2].
    destruct l2 as [ |?|?|?|?|?|?|lits|? ? ?]; try discriminate. destruct lits as [|x lits]; try discriminate.
    destruct op2; try discriminate; destruct r2; try discriminate.
    destruct (consts_sql (x :: lits)) as [[cts cas]|]; [|discriminate]. inversion T; subst. cbn. lia.
Qed.

(* the grammar reads exactly the expression of the specification *)
Theorem tr_parses e ts a : tr e = Some (ts, a) -> pg_parse ts = Some a.
Proof.
  intros T. unfold pg_parse.
  pose proof (tr_parses_sz (esize e) e (le_n _) ts a T (S (S (List.length ts))) [] I (need_le_sz (esize e) e (le_n _) ts a T)) as P.
  rewrite app_nil_r in P. rewrite P. reflexivity.
Qed.
