(* C08 (escaping clause) for texts in ANY script: the rune-level escaped spelling of Proofs/LexEscapeU.v loses exactly its
   backslashes, adds no wildcard, and - as query text f:esc(w) handed to ToPostgres - delivers w verbatim to PostgreSQL.
   Generalises EscapePipeline.esc_remove / esc_contains and QuoteText.to_postgres_on_escaped_value from ASCII to all byte strings
   (valid UTF-8 or not; an invalid byte is escaped on its own). *)
Require Import Parser Render PgModel Printer QuotePipeline EscapePipeline QuerySem SqlSem SqlFrag SqlFragP SqlSucceeds QuoteE2E.
Require Lex LexField LexEscapeU Api QuoteText.
From Coq Require Import List Ascii String ZArith NArith Bool Lia.
Import ListNotations.
Open Scope string_scope.

Section S.
Variable cl : Lex.classes.

Lemma sola_app (a b : list ascii) : string_of_list_ascii (a ++ b) = string_of_list_ascii a ++ string_of_list_ascii b.
Proof. induction a as [|x a IH]; cbn; [reflexivity|rewrite IH; reflexivity]. Qed.

Lemma remove_app c (a b : string) : remove_char c (a ++ b) = remove_char c a ++ remove_char c b.
Proof. induction a as [|x a IH]; cbn [append remove_char]; [reflexivity|]. destruct (Ascii.eqb x c); [exact IH|cbn [append]; rewrite IH; reflexivity]. Qed.

Lemma contains_app c (a b : string) : contains_char c (a ++ b) = contains_char c a || contains_char c b.
Proof. induction a as [|x a IH]; cbn [append contains_char]; [reflexivity|]. rewrite IH, orb_assoc. reflexivity. Qed.

Lemma remove_none c : forall l, forallb (fun x => negb (Ascii.eqb x c)) l = true -> remove_char c (string_of_list_ascii l) = string_of_list_ascii l.
Proof.
  induction l as [|x l IH]; intros H; [reflexivity|]. cbn [forallb] in H. apply andb_true_iff in H. destruct H as [Hx Hl].
  apply negb_true_iff in Hx. cbn [string_of_list_ascii remove_char]. rewrite Hx, (IH Hl). reflexivity.
Qed.

Lemma forallb_firstn {A} (p : A -> bool) n : forall l, forallb p l = true -> forallb p (firstn n l) = true.
Proof. induction n as [|n IH]; intros [|x l] H; cbn in *; try reflexivity. apply andb_true_iff in H. destruct H as [-> H]. cbn. apply IH, H. Qed.
Lemma forallb_skipn {A} (p : A -> bool) n : forall l, forallb p l = true -> forallb p (skipn n l) = true.
Proof. induction n as [|n IH]; intros [|x l] H; cbn in *; try reflexivity; try exact H. apply andb_true_iff in H. destruct H as [_ H]. apply IH, H. Qed.

Lemma esc_u_remove : forall n l, List.length l <= n -> forallb (fun c => negb (Ascii.eqb c bsc)) l = true ->
  remove_char bsc (string_of_list_ascii (Escape.esc_u cl n l)) = string_of_list_ascii l.
Proof.
  induction n as [|n IH]; intros l Hn H.
  - destruct l; [reflexivity|cbn in Hn; lia].
  - cbn [Escape.esc_u]. destruct (Lex.decode_rune l) as [[r w]|] eqn:D.
    2:{ apply LexCtx.decode_none in D. subst. reflexivity. }
    destruct (LexEscapeU.chunk_len l r w D) as [_ L2].
    rewrite sola_app, remove_app, (IH (skipn w l)); [|lia|apply forallb_skipn, H].
    transitivity (string_of_list_ascii (firstn w l) ++ string_of_list_ascii (skipn w l)); [|rewrite <- sola_app, firstn_skipn; reflexivity]. f_equal.
    destruct (Lex.is_alnum cl r).
    + apply remove_none, forallb_firstn, H.
    + cbn [string_of_list_ascii remove_char]. change (Ascii.eqb bsc bsc) with true. cbv iota. apply remove_none, forallb_firstn, H.
Qed.

Lemma esc_u_contains x : Ascii.eqb bsc x = false -> forall n l, List.length l <= n ->
  contains_char x (string_of_list_ascii (Escape.esc_u cl n l)) = contains_char x (string_of_list_ascii l).
Proof.
  intros Hx. induction n as [|n IH]; intros l Hn.
  - destruct l; [reflexivity|cbn in Hn; lia].
  - cbn [Escape.esc_u]. destruct (Lex.decode_rune l) as [[r w]|] eqn:D.
    2:{ apply LexCtx.decode_none in D. subst. reflexivity. }
    destruct (LexEscapeU.chunk_len l r w D) as [_ L2].
    rewrite sola_app, contains_app, (IH (skipn w l)) by lia.
    transitivity (contains_char x (string_of_list_ascii (firstn w l)) || contains_char x (string_of_list_ascii (skipn w l))); [|rewrite <- contains_app, <- sola_app, firstn_skipn; reflexivity]. f_equal.
    destruct (Lex.is_alnum cl r); [reflexivity|]. cbn [string_of_list_ascii contains_char]. rewrite Hx. reflexivity.
Qed.
End S.

Definition escaped_text_u (cl : Lex.classes) (f w : list ascii) : string := string_of_list_ascii (f ++ ":"%char :: Escape.esc cl w).

Theorem to_postgres_on_escaped_value_u :
  forall (o : oracle) (o2 : oracle2) (cl : Lex.classes),
  Lex.is_letter cl 34%N = false /\ Lex.is_digit cl 34%N = false ->
  Lex.is_letter cl 58%N = false /\ Lex.is_digit cl 58%N = false ->
  Lex.is_letter cl 92%N = false /\ Lex.is_digit cl 92%N = false ->
  (forall r, Lex.is_space r = true -> Lex.is_alnum cl r = false) ->
  Lex.is_alnum cl Lex.rune_error = false ->
  forall (c0 : ascii) (f : list ascii) (d0 : ascii) (w : list ascii),
  forallb (LexField.wordc cl) (c0 :: f) = true -> Lex.word_type (c0 :: f) = TLiteral ->
  Lex.word_type (Escape.esc cl (d0 :: w)) = TLiteral ->
  forallb (fun c => negb (Ascii.eqb c "\"%char)) (d0 :: w) = true ->
  let fs := string_of_list_ascii (c0 :: f) in let ws := string_of_list_ascii (d0 :: w) in
  let es := string_of_list_ascii (Escape.esc cl (d0 :: w)) in
  contains_char "*"%char ws = false -> contains_char "?"%char ws = false ->
  atoi es = None -> match parse_float o es with Some x => is_nan_or_inf o x = true | None => True end ->
  parse_literal o {| typ := TLiteral; val := fs |} = lit (VStr fs) ->
  name_ok fs = true -> col_ok o2 fs = true -> lit_ok o2 (sqs ws) = true ->
  exists s : string,
    Api.to_postgres o o2 cl "" (escaped_text_u cl (c0 :: f) (d0 :: w)) = Ret (s, None) /\
    pg_read (str s) = Some (qast fs ws) /\
    forall r : row, ssem r [] (qast fs ws) = qsem r (qtree fs ws).
Proof.
  intros o o2 cl Hq Hc Hb Hws Her c0 f d0 w Hf Ht He Hnb fs ws es Hs Hqm Hat Hfl Pl Nm Co Lo.
  assert (Rm : remove_char "\"%char es = ws) by (apply (esc_u_remove cl); [apply le_n|exact Hnb]).
  assert (Cs : contains_char "*"%char es = false) by (unfold es, Escape.esc; rewrite (esc_u_contains cl "*"%char eq_refl) by apply le_n; exact Hs).
  assert (Cq : contains_char "?"%char es = false) by (unfold es, Escape.esc; rewrite (esc_u_contains cl "?"%char eq_refl) by apply le_n; exact Hqm).
  destruct (escaped_value_reaches_postgres o o2 {| typ := TLiteral; val := fs |} fs es ws eq_refl Pl Hat Hfl Cs Cq Rm Nm Co Lo) as [Pt [s [R [Rd Sm]]]].
  exists s. split; [|split; assumption].
  unfold Api.to_postgres, Api.parse, Api.lex_tokens, escaped_text_u. rewrite QuoteText.los_sola.
  rewrite (LexEscapeU.lex_field_escaped_u cl Hq Hc Hb Hws Her c0 f d0 w Hf Ht He). cbn [map]. unfold Api.tok_of. cbn [Lex.typ Lex.val].
  change (match parse_toks o "" [{| typ := TLiteral; val := fs |}; colon_tok; EscapePipeline.word_tok es; eof] with
          | PTree e => render o2 e | PErr => Ret ("", Some "parse error") | PPanic p => Panic p | POutOfFuel => Panic "out of fuel" end = Ret (s, None)).
  rewrite Pt. exact R.
Qed.
Print Assumptions to_postgres_on_escaped_value_u.

(* the same text handed to ToParameterizedPostgres: a placeholder in the SQL, w - verbatim - as the only parameter *)
Theorem to_param_postgres_on_escaped_value_u :
  forall (o : oracle) (o2 : oracle2) (cl : Lex.classes),
  Lex.is_letter cl 34%N = false /\ Lex.is_digit cl 34%N = false ->
  Lex.is_letter cl 58%N = false /\ Lex.is_digit cl 58%N = false ->
  Lex.is_letter cl 92%N = false /\ Lex.is_digit cl 92%N = false ->
  (forall r, Lex.is_space r = true -> Lex.is_alnum cl r = false) ->
  Lex.is_alnum cl Lex.rune_error = false ->
  forall (c0 : ascii) (f : list ascii) (d0 : ascii) (w : list ascii),
  forallb (LexField.wordc cl) (c0 :: f) = true -> Lex.word_type (c0 :: f) = TLiteral ->
  Lex.word_type (Escape.esc cl (d0 :: w)) = TLiteral ->
  forallb (fun c => negb (Ascii.eqb c "\"%char)) (d0 :: w) = true ->
  let fs := string_of_list_ascii (c0 :: f) in let ws := string_of_list_ascii (d0 :: w) in
  let es := string_of_list_ascii (Escape.esc cl (d0 :: w)) in
  contains_char "*"%char ws = false -> contains_char "?"%char ws = false ->
  atoi es = None -> match parse_float o es with Some x => is_nan_or_inf o x = true | None => True end ->
  parse_literal o {| typ := TLiteral; val := fs |} = lit (VStr fs) ->
  name_ok fs = true -> col_ok o2 fs = true -> valid_utf8 o2 "?" = true ->
  exists s : string,
    Api.to_param_postgres o o2 cl "" (escaped_text_u cl (c0 :: f) (d0 :: w)) = Ret (s, [VStr ws], None) /\
    pg_read (number_placeholders (str s)) = Some (past fs) /\
    forall r : row, ssem r [RStr ws] (past fs) = qsem r (qtree fs ws).
Proof.
  intros o o2 cl Hq Hc Hb Hws Her c0 f d0 w Hf Ht He Hnb fs ws es Hs Hqm Hat Hfl Pl Nm Co Vq.
  assert (Rm : remove_char "\"%char es = ws) by (apply (esc_u_remove cl); [apply le_n|exact Hnb]).
  assert (Cs : contains_char "*"%char es = false) by (unfold es, Escape.esc; rewrite (esc_u_contains cl "*"%char eq_refl) by apply le_n; exact Hs).
  assert (Cq : contains_char "?"%char es = false) by (unfold es, Escape.esc; rewrite (esc_u_contains cl "?"%char eq_refl) by apply le_n; exact Hqm).
  assert (Nst : String.eqb ws "*" = false).
  { destruct (String.eqb ws "*") eqn:E; [|reflexivity]. apply String.eqb_eq in E. rewrite E in Hs. discriminate. }
  pose proof (escaped_value_tree o {| typ := TLiteral; val := fs |} fs es ws eq_refl Pl Hat Hfl Cs Cq Rm) as Pt.
  destruct (quoted_value_travels_as_parameter o2 fs ws Nst Nm Co Vq) as [s [R [Rd Sm]]].
  exists s. split; [|split; assumption].
  unfold Api.to_param_postgres, Api.parse, Api.lex_tokens, escaped_text_u. rewrite QuoteText.los_sola.
  rewrite (LexEscapeU.lex_field_escaped_u cl Hq Hc Hb Hws Her c0 f d0 w Hf Ht He). cbn [map]. unfold Api.tok_of. cbn [Lex.typ Lex.val].
  change (match parse_toks o "" [{| typ := TLiteral; val := fs |}; colon_tok; EscapePipeline.word_tok es; eof] with
          | PTree e => render_param o2 e | PErr => Ret ("", [], Some "parse error") | PPanic p => Panic p | POutOfFuel => Panic "out of fuel" end = Ret (s, [VStr ws], None)).
  rewrite Pt. exact R.
Qed.
Print Assumptions to_param_postgres_on_escaped_value_u.
