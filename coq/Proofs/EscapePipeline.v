(* C08 (escaping clause), from the token to the tree: a Literal token whose text es is the escaped spelling of w - removing the
   backslashes gives w, es holds no wildcard character and does not read as a number - denotes exactly w as a plain value; and
   the escaped spelling of Proofs/LexEscape.v has those properties for every w without backslash, star and question mark. *)
Require Import Parser ParserShape Printer ParserRoundTripV QuotePipeline.
Require Lex LexField LexEscape.
From Coq Require Import List Ascii String ZArith NArith Bool Lia.
Import ListNotations.
Open Scope string_scope.

Notation bsc := "\"%char.
Definition word_tok (es : string) : token := {| typ := TLiteral; val := es |}.

Lemma parse_literal_escaped o es w :
  atoi es = None ->
  match parse_float o es with Some f => is_nan_or_inf o f = true | None => True end ->
  contains_char "*"%char es = false -> contains_char "?"%char es = false ->
  remove_char bsc es = w ->
  parse_literal o (word_tok es) = lit (VStr w).
Proof.
  intros Ha Hf Hs Hq Hr. unfold parse_literal, word_tok. cbn [typ val]. rewrite Ha.
  assert (F : match parse_float o es with Some f => if is_nan_or_inf o f then None else Some f | None => None end = None).
  { destruct (parse_float o es) as [f|]; [rewrite Hf|]; reflexivity. }
  rewrite F, Hs, Hq. cbn [orb].
  destruct (contains_char bsc es) eqn:B; [rewrite Hr; reflexivity|].
  rewrite (remove_char_absent _ _ B) in Hr. rewrite Hr. reflexivity.
Qed.

Section P.
Variable o : oracle.

Theorem escaped_value_tree ftok fs es w :
  is_term_tok ftok = true -> parse_literal o ftok = lit (VStr fs) ->
  atoi es = None ->
  match parse_float o es with Some f => is_nan_or_inf o f = true | None => True end ->
  contains_char "*"%char es = false -> contains_char "?"%char es = false ->
  remove_char bsc es = w ->
  parse_toks o "" [ftok; colon_tok; word_tok es; eof] =
  PTree (E (VExp (lit (VCol fs))) Equals (VExp (lit (VStr w))) one_bits 1%Z).
Proof.
  intros Hf Pf Ha Hfl Hs Hq Hr.
  pose proof (printed_tree_parses o (QFv ftok colon_tok (word_tok es))) as R.
  cbn [pr want app] in R. rewrite R; [|cbn [wfq]; repeat split; auto].
  rewrite Pf, (parse_literal_escaped o es w Ha Hfl Hs Hq Hr). reflexivity.
Qed.
End P.

(* the escaped spelling of LexEscape has these properties *)
Section S.
Variable cl : Lex.classes.
Hypothesis backslash_not_alnum : Lex.is_letter cl 92 = false /\ Lex.is_digit cl 92 = false.

Lemma esc_remove : forall l, forallb (fun c => negb (Ascii.eqb c bsc)) l = true ->
  remove_char bsc (string_of_list_ascii (LexEscape.esc_b cl l)) = string_of_list_ascii l.
Proof.
  induction l as [|c l IH]; intros H; [reflexivity|]. cbn [forallb] in H. apply andb_true_iff in H. destruct H as [Hc Hl].
  apply negb_true_iff in Hc. cbn [LexEscape.esc_b]. destruct (LexField.wordc cl c).
  - cbn [string_of_list_ascii remove_char]. rewrite Hc, (IH Hl). reflexivity.
  - cbn [string_of_list_ascii remove_char]. change (Ascii.eqb bsc bsc) with true. cbv iota. rewrite Hc, (IH Hl). reflexivity.
Qed.

Lemma esc_contains x : Ascii.eqb bsc x = false -> forall l,
  contains_char x (string_of_list_ascii (LexEscape.esc_b cl l)) = contains_char x (string_of_list_ascii l).
Proof.
  intros Hx. induction l as [|c l IH]; [reflexivity|]. cbn [LexEscape.esc_b]. destruct (LexField.wordc cl c).
  - cbn [string_of_list_ascii contains_char]. rewrite IH. reflexivity.
  - cbn [string_of_list_ascii contains_char]. rewrite Hx. cbn [orb]. rewrite IH. reflexivity.
Qed.
End S.
