(* C16 — The token stream is a lossless segmentation of the input. *)
Require Import Parser Api.
Require Lex.
Require Import ParserErrTok.
Require LexProof LexFuel LexPeek.
From Coq Require Import List String.

(* for EVERY rune classification: each proper token's text, preceded only by skipped whitespace (space, tab, CR, LF), is the
   next piece of the input, and the rest is strictly shorter *)
Theorem C16_next_token_lossless : forall (cl : Lex.classes) (s : Lex.bytes) (t : Lex.token) (rest : Lex.bytes),
  Lex.next_token cl s = (t, rest) -> LexProof.proper t ->
  exists w, forallb LexProof.ws_byte w = true /\ s = (w ++ Lex.val t ++ rest)%list /\ List.length rest < List.length s.
Proof. exact LexProof.next_token_lossless. Qed.

(* the whole stream tiles the input up to its end or up to the first lexical error, and stops there *)
Theorem C16_stream_is_a_segmentation : forall (cl : Lex.classes) (fuel : nat) (s : Lex.bytes),
  LexProof.segments s (Lex.lex_all cl fuel s).
Proof. exact LexProof.lex_lossless. Qed.

(* finitely many tokens: |s|+1 calls of Next suffice, more fuel changes nothing *)
Theorem C16_finitely_many_tokens : forall (cl : Lex.classes) (s : Lex.bytes) (k : nat),
  Lex.lex cl s = Lex.lex_all cl (S (List.length s) + k) s.
Proof. exact LexFuel.lex_fuel_free. Qed.

(* a token list that ends in an error token (a rune that starts no token, an unterminated quote or regexp) never yields a tree *)
Theorem C16_lexical_error_rejects : forall (o : oracle) (df : string) (ts : list token),
  ends_in_err ts -> match parse_toks o df ts with PTree _ => False | _ => True end.
Proof. exact lex_error_rejects. Qed.

(* the Lexer object (Model/Lex.v lstate, lnext, lpeek): in every state reachable by reads, Peek returns exactly the token the next
   read returns (including the currItem = EOF shortcut); Peek hands no state back, so it cannot affect the stream *)
Theorem C16_peek_is_next : forall (cl : Lex.classes) (s : Lex.bytes) (st : Lex.lstate),
  LexPeek.reachable cl s st -> Lex.lpeek cl st = fst (Lex.lnext cl st).
Proof. exact LexPeek.peek_is_next. Qed.

(* after the end of input or a lexical error every further read reports end-of-input *)
Theorem C16_eof_forever : forall (cl : Lex.classes) (st : Lex.lstate), LexPeek.ended (fst (Lex.lnext cl st)) = true ->
  forall k, fst (Lex.lnext cl (LexPeek.reads cl k (snd (Lex.lnext cl st)))) = Lex.eof_tok.
Proof. exact LexPeek.eof_forever. Qed.

Print Assumptions C16_next_token_lossless.
Print Assumptions C16_peek_is_next.
Print Assumptions C16_eof_forever.
Print Assumptions C16_stream_is_a_segmentation.
Print Assumptions C16_finitely_many_tokens.
Print Assumptions C16_lexical_error_rejects.
