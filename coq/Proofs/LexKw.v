(* C09 (keyword case) from the query TEXT: s' is s with some operator tokens (AND, OR, NOT, TO - any token that is not a term)
   replaced by other spellings of the same type, each standing between whitespace (or at the end of the input). Then the two
   token streams agree in every token type and in the text of every term token - whatever else the texts contain, valid UTF-8
   or not - and therefore (ParserTokText) Parse returns the same result for both. A keyword written in another letter case is
   such a spelling (kw_clean + LexCase.word_type_case). A keyword at the very start of the input is covered together with the
   whitespace theorem (a leading blank changes nothing). *)
Require Import Lex LexProof LexFuel LexWs LexCtx LexCtx2 LexWsG LexField.
From Coq Require Import List Ascii String NArith Bool Arith Lia.
Import ListNotations.

Definition lterm (ty : toktype) : bool := match ty with TErr | TLiteral | TQuoted | TRegexp | TEOF => true | _ => false end.
Definition same_tok (t t' : token) : Prop := typ t = typ t' /\ (lterm (typ t) = true -> val t = val t').
Lemma same_tok_refl t : same_tok t t. Proof. split; auto. Qed.
Definition ws_or_end (r : bytes) : Prop := match r with [] => True | c :: _ => ws_byte c = true end.

Section KW.
Variable cl : classes.
Hypothesis ws_not_alnum : forall r, is_space r = true -> is_alnum cl r = false.
Hypothesis fffd_not_alnum : is_letter cl 65533 = false /\ is_digit cl 65533 = false.

Inductive kwvar : bytes -> bytes -> Prop :=
| kv_same : forall r, kwvar r r
| kv_tok : forall w t r r', all_ws w -> next_token cl (val t ++ r) = (t, r) -> proper t -> clean_g cl t -> kwvar r r' ->
    kwvar (w ++ val t ++ r) (w ++ val t ++ r')
| kv_kw : forall w t t' r r', all_ws w -> w <> [] -> proper t -> proper t' -> clean_g cl t -> clean_g cl t' ->
    typ t = typ t' -> lterm (typ t) = false -> ws_or_end r -> ws_or_end r' -> kwvar r r' ->
    kwvar (w ++ val t ++ r) (w ++ val t' ++ r').

Lemma all_ws_head w : all_ws w -> ws_or_end w.
Proof. destruct w as [|c w]; [exact (fun _ => I)|]. unfold all_ws. cbn [forallb ws_or_end]. intros H. apply andb_true_iff in H. tauto. Qed.

Lemma ws_or_end_app w x : all_ws w -> w <> [] -> ws_or_end (w ++ x).
Proof. intros H Hn. destruct w as [|c w]; [contradiction|]. exact (all_ws_head (c :: w) H). Qed.

Lemma kwvar_hd r r' : kwvar r r' -> r' = r \/ hd_ok r'.
Proof.
  intros W. destruct W as [r | w t r r' Hw H P C W | w t t' r r' Hw Hn P P' C C' Ty Lt Hr Hr' W]; [left; reflexivity|right|right].
  - destruct w as [|c w'']; [cbn [app]; apply (proper_first_not_cont cl ws_not_alnum fffd_not_alnum t r r' H P)|].
    apply ws_hd. exact (all_ws_head (c :: w'') Hw).
  - destruct w as [|c w'']; [contradiction|]. apply ws_hd. exact (all_ws_head (c :: w'') Hw).
Qed.

Lemma transfer t r r' : next_token cl (val t ++ r) = (t, r) -> proper t -> clean_g cl t -> kwvar r r' ->
  next_token cl (val t ++ r') = (t, r').
Proof.
  intros H P C W. destruct W as [r | w t2 r0 r0' Hw H2 P2 C2 W | w t2 t2' r0 r0' Hw Hn P2 P2' C2 C2' Ty Lt Hr Hr' W].
  - exact H.
  - destruct w as [|c' w''].
    + cbn [app] in *. destruct (kwvar_hd r0 r0' W) as [->|Hh0]; [exact H|].
      pose proof (proper_nonempty cl ws_not_alnum t2 r0 H2 P2) as Ne.
      assert (Dsame : decode_rune (val t2 ++ r0') = decode_rune (val t2 ++ r0)).
      { destruct (decode_rune (val t2 ++ r0)) as [[rn w]|] eqn:D; [|apply decode_none in D; destruct (val t2); [contradiction|discriminate]].
        apply (decode_ctx (val t2) r0 r0' rn w D (first_rune_inside cl ws_not_alnum t2 r0 rn w H2 P2 D) Hh0). }
      apply (next_token_ctx_g cl ws_not_alnum t (val t2 ++ r0) (val t2 ++ r0')); try assumption.
      * destruct (val t2); [contradiction|discriminate].
      * apply (proper_first_not_cont cl ws_not_alnum fffd_not_alnum t2 r0 r0' H2 P2).
      * unfold look_ok, wstop, nodigit. rewrite Dsame. split; auto.
    + apply (ctx_to_ws cl ws_not_alnum t ((c' :: w'') ++ val t2 ++ r0') C P). cbn [app]. exact (all_ws_head (c' :: w'') Hw).
  - apply (ctx_to_ws cl ws_not_alnum t (w ++ val t2' ++ r0') C P). exact (ws_or_end_app w _ Hw Hn).
Qed.

Theorem lex_all_kw : forall s s', kwvar s s' ->
  forall f f', List.length s < f -> List.length s' < f' -> Forall2 same_tok (lex_all cl f s) (lex_all cl f' s').
Proof.
  intros s s' W. induction W as [r | w t r r' Hw H P C W IH | w t t' r r' Hw Hn P P' C C' Ty Lt Hr Hr' W IH]; intros f f' Hf Hf'.
  - rewrite (lex_all_fuel cl f f' r Hf Hf'). induction (lex_all cl f' r); constructor; [apply same_tok_refl|assumption].
  - destruct f as [|f]; [lia|]. destruct f' as [|f']; [lia|].
    pose proof (transfer t r r' H P C W) as H'.
    rewrite (lex_all_proper cl f t r (w ++ val t ++ r)) by (try exact P; rewrite (next_token_ws cl w _ Hw); exact H).
    rewrite (lex_all_proper cl f' t r' (w ++ val t ++ r')) by (try exact P; rewrite (next_token_ws cl w _ Hw); exact H').
    assert (Lv : 1 <= List.length (val t)) by (pose proof (proper_nonempty cl ws_not_alnum t r H P); destruct (val t); [contradiction|cbn; lia]).
    constructor; [apply same_tok_refl|]. apply IH; rewrite !app_length in *; lia.
  - destruct f as [|f]; [lia|]. destruct f' as [|f']; [lia|].
    pose proof (ctx_to_ws cl ws_not_alnum t r C P Hr) as H1. pose proof (ctx_to_ws cl ws_not_alnum t' r' C' P' Hr') as H1'.
    rewrite (lex_all_proper cl f t r (w ++ val t ++ r)) by (try exact P; rewrite (next_token_ws cl w _ Hw); exact H1).
    rewrite (lex_all_proper cl f' t' r' (w ++ val t' ++ r')) by (try exact P'; rewrite (next_token_ws cl w _ Hw); exact H1').
    assert (Lv : 1 <= List.length (val t)) by (pose proof (proper_nonempty cl ws_not_alnum t r H1 P); destruct (val t); [contradiction|cbn; lia]).
    assert (Lv' : 1 <= List.length (val t')) by (pose proof (proper_nonempty cl ws_not_alnum t' r' H1' P'); destruct (val t'); [contradiction|cbn; lia]).
    constructor; [split; [exact Ty|rewrite Lt; discriminate]|]. apply IH; rewrite !app_length in *; lia.
Qed.

Theorem lex_kw s s' : kwvar s s' -> Forall2 same_tok (lex cl s) (lex cl s').
Proof. intros W. unfold lex. apply (lex_all_kw s s' W); lia. Qed.
End KW.
Print Assumptions lex_kw.
