(* Scratch: C15 — Render over an arbitrary table of render functions; a missing entry anywhere makes it fail *)
Require Import Parser ParserShape Render.
From Coq Require Import List Ascii String ZArith Bool Lia.
Import ListNotations.
Open Scope string_scope.

Section D.
Variable o2 : oracle2.
Variable fns : operator -> option (string -> string -> out sres).

Fixpoint render_with (e : expr) {struct e} : out sres :=
  match e with
  | E l op r _ _ =>
    do ls <- serialize_with l;
    match ls with
    | (_, Some er) => Ret ("", Some er)
    | (lf, None) =>
      do rs_ <- serialize_with r;
      match rs_ with
      | (_, Some er) => Ret ("", Some er)
      | (rt, None) =>
        let lf := wrap_if (negb (no_wrap_op op) && negb (is_simple l)) lf in
        let rt := wrap_if (negb (no_wrap_op op) && negb (is_simple r)) rt in
        match fns op with
        | None => Ret ("", Some "unable to render operator")
        | Some fn => fn lf rt
        end
      end
    end
  end
with serialize_with (v : value) {struct v} : out sres :=
  match v with
  | VNil => Ret ("", None)
  | VExp e => render_with e
  | VList l =>
      (fix each (l : list expr) (acc : list string) : out sres :=
         match l with
         | [] => Ret (join ", " (rev acc), None)
         | x :: rest =>
             do s <- render_with x;
             match s with
             | (s', Some er) => Ret (s', Some er)
             | (s', None) => each rest (s' :: acc)
             end
         end) l []
  | VBound mn mx incl =>
      do a <- serialize_with mn;
      match a with
      | (_, Some er) => Ret ("", Some er)
      | (smin, None) =>
        do b <- serialize_with mx;
        match b with
        | (_, Some er) => Ret ("", Some er)
        | (smax, None) => Ret ((if incl then "[" ++ smin ++ ", " ++ smax ++ "]" else "(" ++ smin ++ ", " ++ smax ++ ")"), None)
        end
      end
  | VCol c => Ret (ser_column c)
  | VStr s => Ret ("'" ++ replace_char "'"%char "''" s ++ "'", None)
  | VInt z => Ret (z_to_string z, None)
  | VFloat f => Ret (fmt_v o2 f, None)
  | VBool b => Ret (bool_str b, None)
  end.

(* some node reachable through Left / Right / list elements / range bounds has no render function *)
Fixpoint missing (e : expr) {struct e} : bool :=
  match e with
  | E l op r _ _ => (match fns op with None => true | Some _ => false end) || vmissing l || vmissing r
  end
with vmissing (v : value) {struct v} : bool :=
  match v with
  | VExp e => missing e
  | VList l => (fix any (l : list expr) : bool := match l with [] => false | x :: r => missing x || any r end) l
  | VBound a b _ => vmissing a || vmissing b
  | _ => false
  end.

Definition succeeds (x : out sres) : Prop := exists s, x = Ret (s, None).

Lemma bind_succeeds {A} (x : out A) (k : A -> out sres) :
  succeeds (bind x k) -> exists a, x = Ret a /\ succeeds (k a).
Proof. destruct x; cbn; intros [s H]; [eexists; split; [reflexivity|exists s; exact H] | discriminate]. Qed.

Lemma missing_fails_sized : forall n,
  (forall e, esize e <= n -> missing e = true -> ~ succeeds (render_with e)) /\
  (forall v, vsize v <= n -> vmissing v = true -> ~ succeeds (serialize_with v)).
Proof.
  induction n as [|n [IHe IHv]].
  { split.
    - intros e Hs. destruct e; cbn in Hs; lia.
    - intros v Hs Hm. destruct v; cbn in Hm; try discriminate.
      + destruct e; cbn in Hs; lia.
      + cbn in Hs. lia.
      + cbn in Hs. lia. }
  assert (HE : forall e, esize e <= S n -> missing e = true -> ~ succeeds (render_with e)).
  { intros e Hs Hm Hsucc. destruct e as [l op r b z]. cbn in Hs. cbn [missing] in Hm. cbn [render_with] in Hsucc.
    apply bind_succeeds in Hsucc. destruct Hsucc as ([ls le] & El & Hsucc).
    destruct le as [er|]; [destruct Hsucc as [s Hs']; discriminate|].
    apply bind_succeeds in Hsucc. destruct Hsucc as ([rs' re] & Er & Hsucc).
    destruct re as [er|]; [destruct Hsucc as [s Hs']; discriminate|].
    apply orb_true_iff in Hm. destruct Hm as [Hm|Hm]; [apply orb_true_iff in Hm; destruct Hm as [Hm|Hm]|].
    + destruct (fns op); [discriminate|]. destruct Hsucc as [s Hs']; discriminate.
    + apply (IHv l); [lia | exact Hm | exists ls; exact El].
    + apply (IHv r); [lia | exact Hm | exists rs'; exact Er]. }
  split; [exact HE|].
  (* values *)
  { intros v Hs Hm Hsucc. destruct v; cbn in Hm; try discriminate.
    + (* VExp *) cbn in Hs. cbn [serialize_with] in Hsucc. apply (HE e); [lia | exact Hm | exact Hsucc].
    + (* VList *)
      cbn [serialize_with] in Hsucc. cbn in Hs.
      revert Hsucc. generalize (@nil string).
      induction l as [|x xs IHl]; intros acc Hsucc; [discriminate|].
      apply orb_true_iff in Hm. cbn in Hs.
      apply bind_succeeds in Hsucc. destruct Hsucc as ([s' se] & Ex & Hsucc).
      destruct se as [er|]; [destruct Hsucc as [s Hs']; discriminate|].
      destruct Hm as [Hm|Hm].
      * apply (IHe x); [lia | exact Hm | exists s'; exact Ex].
      * apply (IHl ltac:(lia) Hm (s' :: acc)). exact Hsucc.
    + (* VBound *)
      cbn [serialize_with] in Hsucc. cbn in Hs.
      apply bind_succeeds in Hsucc. destruct Hsucc as ([sa ea] & Ea & Hsucc).
      destruct ea as [er|]; [destruct Hsucc as [s Hs']; discriminate|].
      apply bind_succeeds in Hsucc. destruct Hsucc as ([sb eb] & Eb & Hsucc).
      destruct eb as [er|]; [destruct Hsucc as [s Hs']; discriminate|].
      apply orb_true_iff in Hm. destruct Hm as [Hm|Hm].
      * apply (IHv v1); [lia | exact Hm | exists sa; exact Ea].
      * apply (IHv v2); [lia | exact Hm | exists sb; exact Eb]. }
Qed.

(* C15: if any node's operator has no registered function, Render does not succeed *)
Theorem missing_fails : forall e, missing e = true -> forall s, render_with e <> Ret (s, None).
Proof.
  intros e Hm s H. destruct (missing_fails_sized (esize e)) as [He _].
  apply (He e (le_n _) Hm). exists s. exact H.
Qed.

End D.

(* the postgres table has no entry for Fuzzy and Boost: every tree containing one of them fails to render *)
Fixpoint has_fb (e : expr) {struct e} : bool :=
  match e with
  | E l op r _ _ => (match op with Fuzzy | Boost => true | _ => false end) || vhas_fb l || vhas_fb r
  end
with vhas_fb (v : value) {struct v} : bool :=
  match v with
  | VExp e => has_fb e
  | VList l => (fix any (l : list expr) : bool := match l with [] => false | x :: r => has_fb x || any r end) l
  | VBound a b _ => vhas_fb a || vhas_fb b
  | _ => false
  end.

