(* Scratch: string-surgery lemmas behind rang(): Split / Trim recover the two rendered bounds *)
Require Import Parser Render.
From Coq Require Import List Ascii String ZArith Bool Lia.
Import ListNotations.
Open Scope string_scope.

Fixpoint no_comma (s : string) : bool :=
  match s with EmptyString => true | String c r => negb (Ascii.eqb c ","%char) && no_comma r end.

Lemma append_nil_r s : s ++ "" = s.
Proof. induction s; cbn; congruence. Qed.
Lemma append_assoc (a b c : string) : (a ++ b) ++ c = a ++ (b ++ c).
Proof. induction a; cbn; congruence. Qed.

(* strings.Split on a comma-free prefix *)
Lemma split_comma_prefix : forall a cur rest, no_comma a = true ->
  split_comma (a ++ String ","%char rest) cur = (cur ++ a) :: split_comma rest "".
Proof.
  induction a as [|c a IH]; intros cur rest H; cbn [append split_comma].
  - rewrite Ascii.eqb_refl. rewrite append_nil_r. reflexivity.
  - cbn in H. apply andb_true_iff in H. destruct H as [Hc Ha]. apply negb_true_iff in Hc. rewrite Hc.
    rewrite IH by assumption. rewrite append_assoc. reflexivity.
Qed.
Lemma split_comma_last : forall a cur, no_comma a = true -> split_comma a cur = [cur ++ a].
Proof.
  induction a as [|c a IH]; intros cur H; cbn [split_comma].
  - rewrite append_nil_r. reflexivity.
  - cbn in H. apply andb_true_iff in H. destruct H as [Hc Ha]. apply negb_true_iff in Hc. rewrite Hc.
    rewrite IH by assumption. rewrite append_assoc. reflexivity.
Qed.

Theorem split_two a b : no_comma a = true -> no_comma b = true ->
  split_comma (a ++ ", " ++ b) "" = [a; " " ++ b].
Proof.
  intros Ha Hb. change (a ++ ", " ++ b) with (a ++ String ","%char (" " ++ b)).
  rewrite split_comma_prefix by assumption. cbn [append]. rewrite split_comma_last; [reflexivity|].
  cbn. exact Hb.
Qed.
Print Assumptions split_two.
