(* Model of parse.go (parser loop, shouldShift, parseLiteral), pkg/lucene/reduce/reduce.go (the twelve
   reducers), pkg/lucene/expr/expression.go (Expr and the constructors) and validator.go (Validate).
   Hand-written, executable, run against the implementation through extraction (correspondence check). *)
From Coq Require Import List Ascii String ZArith Bool Lia.
Require Export Tables.
Import ListNotations.
Open Scope string_scope.

(* ---------- tokens ---------- *)
(* toktype, toktype_order (= the precedence table), terminal_tokens, reducer_order, operator and the
   driver tables come from gen/Tables.v, which gentables regenerates from /repo's Go sources. *)

Definition tt_eqb (a b : toktype) : bool :=
  match a, b with
  | TErr, TErr | TLiteral, TLiteral | TQuoted, TQuoted | TRegexp, TRegexp | TEqual, TEqual | TGreater, TGreater
  | TLess, TLess | TColon, TColon | TPlus, TPlus | TMinus, TMinus | TTilde, TTilde | TCarrot, TCarrot | TNot, TNot
  | TAnd, TAnd | TOr, TOr | TRParen, TRParen | TLParen, TLParen | TLCurly, TLCurly | TRCurly, TRCurly | TTO, TTO
  | TLSquare, TLSquare | TRSquare, TRSquare | TEOF, TEOF | TStart, TStart => true
  | _, _ => false
  end.

Fixpoint index_of (t : toktype) (l : list toktype) : nat :=
  match l with [] => 0 | x :: r => if tt_eqb x t then 0 else S (index_of t r) end.
Definition prec (t : toktype) : nat := index_of t toktype_order.

Record token := { typ : toktype; val : string }.
Definition is (x : toktype) (t : token) : bool := tt_eqb (typ t) x.

Definition is_terminal (t : token) : bool :=
  match typ t with TErr | TLiteral | TQuoted | TRegexp | TEOF => true | _ => false end.

Definition is_prefix_op (t : toktype) : bool := match t with TNot | TPlus | TMinus => true | _ => false end.

Definition has_less_precedence (c n : token) : bool :=
  if tt_eqb (typ c) (typ n) then is_prefix_op (typ c) else Nat.ltb (prec (typ n)) (prec (typ c)).

(* ---------- values / expressions ---------- *)
Definition op_eqb (a b : operator) : bool :=
  match a, b with
  | Undefined, Undefined | And, And | Or, Or | Equals, Equals | Like, Like | Not, Not | Range, Range | Must, Must
  | MustNot, MustNot | Boost, Boost | Fuzzy, Fuzzy | Literal, Literal | Wild, Wild | Regexp, Regexp | Greater, Greater
  | Less, Less | GreaterEq, GreaterEq | LessEq, LessEq | In, In | List, List => true
  | _, _ => false
  end.

Inductive value :=
| VNil | VInt (z : Z) | VFloat (bits : Z) | VStr (s : string) | VBool (b : bool) | VCol (s : string)
| VExp (e : expr) | VList (l : list expr) | VBound (mn mx : value) (incl : bool)
with expr := E (left : value) (op : operator) (right : value) (boost : Z) (fuzzy : Z).

Definition e_left (e : expr) := let 'E l _ _ _ _ := e in l.
Definition e_op (e : expr) := let 'E _ o _ _ _ := e in o.
Definition e_right (e : expr) := let 'E _ _ r _ _ := e in r.

Definition one_bits : Z := 4607182418800017408%Z. (* float64 1.0 *)

(* outcomes: Go panics are explicit *)
Inductive out (A : Type) := Ret (a : A) | Panic (site : string).
Arguments Ret {A} a. Arguments Panic {A} site.
Definition bind {A B} (x : out A) (f : A -> out B) : out B := match x with Ret a => f a | Panic s => Panic s end.
Notation "'do' x <- a ; b" := (bind a (fun x => b)) (at level 200, x name, a at level 100, b at level 200).

(* ---------- oracle ---------- *)
Record oracle := {
  parse_float : string -> option Z;     (* strconv.ParseFloat(s, 64) as bits; None on error *)
  is_nan_or_inf : Z -> bool;
  float_pos : Z -> bool;                (* f > 0 *)
  float_of_int : Z -> Z                 (* float64(int) *)
}.

Section WithOracle.
Variable o : oracle.

(* ---------- strings ---------- *)
Fixpoint contains_char (c : ascii) (s : string) : bool :=
  match s with EmptyString => false | String x r => Ascii.eqb x c || contains_char c r end.
Fixpoint remove_char (c : ascii) (s : string) : string :=
  match s with EmptyString => EmptyString | String x r => if Ascii.eqb x c then remove_char c r else String x (remove_char c r) end.
Definition first_char (s : string) : option ascii := match s with String x _ => Some x | _ => None end.
Fixpoint last_char (s : string) : option ascii :=
  match s with EmptyString => None | String x EmptyString => Some x | String _ r => last_char r end.

(* strconv.Atoi: optional sign, decimal digits, int64 range *)
Definition digit_val (c : ascii) : option Z :=
  let n := Z.of_nat (nat_of_ascii c) in if (48 <=? n)%Z && (n <=? 57)%Z then Some (n - 48)%Z else None.
Fixpoint digits (s : string) (acc : Z) : option Z :=
  match s with
  | EmptyString => Some acc
  | String c r => match digit_val c with Some d => digits r (acc * 10 + d)%Z | None => None end
  end.
Definition atoi (s : string) : option Z :=
  let body (neg : bool) (r : string) :=
    match r with
    | EmptyString => None
    | _ => match digits r 0%Z with
           | Some v => let v' := if neg then (- v)%Z else v in
                       if (-9223372036854775808 <=? v')%Z && (v' <=? 9223372036854775807)%Z then Some v' else None
           | None => None
           end
    end in
  match s with
  | String "-"%char r => body true r
  | String "+"%char r => body false r
  | _ => body false s
  end.

(* ---------- expr package ---------- *)
Definition empty_e (l : value) (op : operator) (r : value) : expr := E l op r one_bits 1%Z.

Definition is_literal (v : value) : bool :=
  match v with VStr _ | VInt _ | VFloat _ | VBool _ | VCol _ => true | _ => false end.

Definition is_stringlike (v : value) : bool :=
  match v with
  | VStr _ => true
  | VExp e => match e_left e with VStr _ => true | _ => false end
  | _ => false
  end.

Definition operates_on_column (op : operator) : bool :=
  match op with Equals | Range | Greater | Less | GreaterEq | LessEq | In | Like => true | _ => false end.

Definition lit (v : value) : expr := empty_e v Literal VNil.
Definition wild (s : string) : expr := empty_e (VStr s) Wild VNil.
Definition regexp (s : string) : expr := empty_e (VStr s) Regexp VNil.

Definition wrap_in_column (v : value) : value :=
  match v with
  | VStr s => VExp (lit (VCol s))
  | VExp e => match e_left e with VStr s => VExp (lit (VCol s)) | _ => VExp e end
  | _ => VNil
  end.

Definition literal_to_expr (v : value) : expr :=
  match v with
  | VExp e => e
  | VStr s =>
      if (2 <=? String.length s)%nat &&
         match first_char s, last_char s with Some a, Some b => Ascii.eqb a "/"%char && Ascii.eqb b "/"%char | _, _ => false end
      then regexp s
      else if contains_char "*"%char s || contains_char "?"%char s then wild s
      else lit v
  | _ => lit v
  end.

Definition should_use_like (v : value) : bool :=
  match v with VExp e => match e_op e with Wild | Regexp => true | _ => false end | _ => false end.

(* expr.Expr(left, op, right...) *)
Definition expr_new (left : value) (op : operator) (right : list value) : out expr :=
  let left := if is_stringlike left && operates_on_column op then wrap_in_column left else left in
  let left := if is_literal left && negb (op_eqb op Literal) && negb (op_eqb op Wild) && negb (op_eqb op Regexp)
              then VExp (literal_to_expr left) else left in
  match op, right with
  | Equals, [r] =>
      if should_use_like r then Ret (empty_e left Like r)
      else Ret (empty_e left Equals (match r with VNil => VNil | _ => if is_literal r then VExp (literal_to_expr r) else r end))
  | Boost, _ => Ret (E left Boost VNil (match right with [VFloat f] => f | _ => one_bits end) 1%Z)
  | Fuzzy, _ => Ret (E left Fuzzy VNil one_bits (match right with [VInt d] => d | _ => 1%Z end))
  | Range, [mn; mx; VBool incl] => Ret (empty_e left Range (VBound (VExp (literal_to_expr mn)) (VExp (literal_to_expr mx)) incl))
  | In, r :: _ => match r with VExp _ => Ret (empty_e left In r) | _ => Panic "Expr: In right is not *Expression" end
  | List, _ => match left with VList l => Ret (empty_e (VList l) List VNil) | _ => Panic "Expr: List left" end
  | _, r :: _ =>
      match r with
      | VNil => Ret (empty_e left op VNil)
      | _ => Ret (empty_e left op (if is_literal r then VExp (literal_to_expr r) else r))
      end
  | _, [] => Ret (empty_e left op VNil)
  end.

Definition eq_ (a b : value) := expr_new a Equals [b].

(* ---------- parseLiteral ---------- *)
Definition parse_literal (t : token) : expr :=
  match typ t with
  | TQuoted => lit (VStr (remove_char """"%char (val t)))
  | TRegexp => regexp (val t)
  | _ =>
    match atoi (val t) with
    | Some i => lit (VInt i)
    | None =>
      match match parse_float o (val t) with Some f => if is_nan_or_inf o f then None else Some f | None => None end with
      | Some f => lit (VFloat f)
      | None =>
        if contains_char "*"%char (val t) || contains_char "?"%char (val t) then wild (val t)
        else if contains_char "\"%char (val t) then lit (VStr (remove_char "\"%char (val t)))
        else lit (VStr (val t))
      end
    end
  end.

(* ---------- reducers ---------- *)
Inductive item := ITok (t : token) | IExp (e : expr).

Definition is_leaf_op (op : operator) : bool := match op with Literal | Wild | Regexp => true | _ => false end.

Definition wrap_literal (e : expr) (df : string) : out expr :=
  if String.eqb df "" then Ret e else if is_leaf_op (e_op e) then eq_ (VCol df) (VExp e) else Ret e.

Definition value_eqb_col (v : value) (df : string) : bool := match v with VCol s => String.eqb s df | _ => false end.

Fixpoint chained_or_literals (df : string) (e : expr) : list expr * bool :=
  let e' := match e with
            | E (VExp col) Equals (VExp v) _ _ =>
                if negb (String.eqb df "") && value_eqb_col (e_left col) df then v else e
            | _ => e
            end in
  match e' with
  | E _ Literal _ _ _ => ([e'], true)
  | E (VExp l) Or (VExp r) _ _ =>
      let '(ll, okl) := chained_or_literals df l in
      let '(rl, okr) := chained_or_literals df r in
      ((ll ++ rl)%list, okl && okr)
  | _ => ([], false)
  end.

(* stack[:len(stack)-i] panics when the stack is too short; nts is kept reversed: head = top *)
Definition drop {A} (n : nat) (l : list A) : out (list A) :=
  if (n <=? List.length l)%nat then Ret (skipn n l) else Panic "drop: slice bounds out of range".

Definition red := list item -> list token -> string -> option (out (list item * list token)).

Definition r_and_or (which : toktype) (mk : operator) : red := fun top nts df =>
  match top with
  | [IExp l; ITok t; IExp r] =>
      if is which t then
        Some (do l' <- wrap_literal l df; do r' <- wrap_literal r df; do e <- expr_new (VExp l') mk [VExp r']; (do n' <- drop 1 nts; Ret ([IExp e], n')))
      else None
  | _ => None
  end.

Definition r_equal : red := fun top nts df =>
  match top with
  | [IExp term; ITok t; IExp v] =>
      if is TEqual t || is TColon t then
        let '(lits, ok) := chained_or_literals df v in
        Some (if ok && (1 <? List.length lits)%nat
              then do l <- expr_new (VList lits) List []; do e <- expr_new (VExp term) In [VExp l]; (do n' <- drop 1 nts; Ret ([IExp e], n'))
              else do e <- eq_ (VExp term) (VExp v); (do n' <- drop 1 nts; Ret ([IExp e], n')))
      else None
  | _ => None
  end.

Definition r_compare : red := fun top nts df =>
  match top with
  | [IExp term; ITok c; ITok cmp; IExp v] =>
      if is TColon c && (is TGreater cmp || is TLess cmp) then
        Some (do e <- expr_new (VExp term) (if is TGreater cmp then Greater else Less) [VExp v]; (do n' <- drop 2 nts; Ret ([IExp e], n')))
      else None
  | _ => None
  end.

Definition r_compare_eq : red := fun top nts df =>
  match top with
  | [IExp term; ITok c; ITok cmp; ITok eq; IExp v] =>
      if is TColon c && (is TGreater cmp || is TLess cmp) && is TEqual eq then
        Some (do e <- expr_new (VExp term) (if is TGreater cmp then GreaterEq else LessEq) [VExp v]; (do n' <- drop 3 nts; Ret ([IExp e], n')))
      else None
  | _ => None
  end.

Fixpoint split_last2 {A} (l : list A) : option (list A * A * A) :=
  match l with
  | [a; b] => Some ([], a, b)
  | x :: r => match split_last2 r with Some (p, a, b) => Some (x :: p, a, b) | None => None end
  | [] => None
  end.

Definition r_not : red := fun top nts df =>
  match split_last2 top with
  | Some (pre, ITok t, IExp x) =>
      if is TNot t then Some (do x' <- wrap_literal x df; do e <- expr_new (VExp x') Not []; (do n' <- drop 1 nts; Ret ((pre ++ [IExp e])%list, n'))) else None
  | _ => None
  end.

Definition r_sub : red := fun top nts df =>
  match top with
  | [ITok a; IExp inner; ITok b] => if is TLParen a && is TRParen b then Some ((do n' <- drop 2 nts; Ret ([IExp inner], n'))) else None
  | _ => None
  end.

Definition r_prefix (which : toktype) (mk : operator) : red := fun top nts df =>
  match top with
  | [ITok t; IExp rest] =>
      if is which t then Some (do r' <- wrap_literal rest df; do e <- expr_new (VExp r') mk []; (do n' <- drop 1 nts; Ret ([IExp e], n'))) else None
  | _ => None
  end.

Definition r_fuzzy : red := fun top nts df =>
  match top with
  | [IExp rest; ITok t] =>
      if is TTilde t then Some (do r' <- wrap_literal rest df; do e <- expr_new (VExp r') Fuzzy [VInt 1]; (do n' <- drop 1 nts; Ret ([IExp e], n'))) else None
  | [IExp rest; ITok t; IExp d] =>
      if is TTilde t then
        match e_left d, e_op d with
        | VInt n, Literal => Some (do r' <- wrap_literal rest df; do e <- expr_new (VExp r') Fuzzy [VInt n]; (do n' <- drop 1 nts; Ret ([IExp e], n')))
        | _, _ => None
        end
      else None
  | _ => None
  end.

Definition to_positive_float (e : expr) : option Z :=
  match e_op e, e_left e with
  | Literal, VInt v => if (0 <? v)%Z then Some (float_of_int o v) else None
  | Literal, VFloat f => if float_pos o f && negb (is_nan_or_inf o f) then Some f else None
  | _, _ => None
  end.

Definition r_boost : red := fun top nts df =>
  match top with
  | [IExp rest; ITok t] =>
      if is TCarrot t then Some (do r' <- wrap_literal rest df; do e <- expr_new (VExp r') Boost [VFloat one_bits]; (do n' <- drop 1 nts; Ret ([IExp e], n'))) else None
  | [IExp rest; ITok t; IExp p] =>
      if is TCarrot t then
        match to_positive_float p with
        | Some f => Some (do r' <- wrap_literal rest df; do e <- expr_new (VExp r') Boost [VFloat f]; (do n' <- drop 1 nts; Ret ([IExp e], n')))
        | None => None
        end
      else None
  | _ => None
  end.

Definition r_range : red := fun top nts df =>
  match top with
  | [IExp term; ITok c; ITok op; IExp s; ITok to; IExp e; ITok cl] =>
      if is TColon c && (is TLSquare op || is TLCurly op) && (is TRSquare cl || is TRCurly cl) && is TTO to then
        Some (do r <- expr_new (VExp term) Range [VExp s; VExp e; VBool (is TLSquare op && is TRSquare cl)]; (do n' <- drop 4 nts; Ret ([IExp r], n')))
      else None
  | _ => None
  end.

Definition red_of (r : reducer_id) : red :=
  match r with
  | R_and => r_and_or TAnd And | R_or => r_and_or TOr Or | R_equal => r_equal | R_compare => r_compare
  | R_compareEq => r_compare_eq | R_not => r_not | R_sub => r_sub | R_must => r_prefix TPlus Must
  | R_mustNot => r_prefix TMinus MustNot | R_fuzzy => r_fuzzy | R_boost => r_boost | R_rangeop => r_range
  end.

(* the reducers in the order of the Go slice `reducers` (generated); computed here so that proofs see the literal list *)
Definition reducers : list red := Eval cbv [map red_of reducer_order] in map red_of reducer_order.

Fixpoint try_reducers (rs : list red) (top : list item) (nts : list token) (df : string) :=
  match rs with
  | [] => None
  | r :: rest => match r top nts df with Some x => Some x | None => try_reducers rest top nts df end
  end.

(* parser.reduce(): stack reversed (head = top of stack) *)
Inductive rres := RFail | RPanic (s : string) | ROk (rstack : list item) (nts : list token).

Fixpoint reduce_loop (rstack top : list item) (nts : list token) (df : string) : rres :=
  match rstack with
  | [] => RFail
  | s :: rest =>
      match try_reducers reducers (s :: top) nts df with
      | Some (Ret (top', nts')) => ROk (rev_append top' rest) nts'
      | Some (Panic p) => RPanic p
      | None => reduce_loop rest (s :: top) nts df
      end
  end.

(* ---------- shouldShift ---------- *)
Definition any_open_bracket (c n : token) : bool :=
  is TLSquare c || is TLSquare n || is TLCurly c || is TLCurly n || is TLParen c || is TLParen n.

Definition should_shift (nts : list token) (next : token) : out bool :=
  if is TEOF next then Ret false else if is TErr next then Ret false else
  match nts with
  | [] => Panic "nonTerminals[len-1]"
  | curr :: _ =>
      if is_terminal next then Ret true
      else if any_open_bracket curr next then Ret true
      else if is TRSquare next || is TRCurly next then Ret true
      else if is TRParen curr || is TRSquare curr || is TRCurly curr then Ret false
      else Ret (has_less_precedence curr next)
  end.

(* ---------- the loop ---------- *)
Record cfg := { rs : list item; ns : list token; toks : list token; pend : option expr }.
Inductive res := Next (c : cfg) | Accept (e : expr) | Reject | Crash (s : string).

Definition eof := {| typ := TEOF; val := "EOF" |}.
Definition impl_and := {| typ := TAnd; val := "AND" |}.
Definition start := {| typ := TStart; val := "" |}.

Definition do_reduce (c : cfg) (df : string) : res :=
  match reduce_loop (rs c) [] (ns c) df with
  | RFail => Reject
  | RPanic s => Crash s
  | ROk r n => Next {| rs := r; ns := n; toks := toks c; pend := pend c |}
  end.

Definition step (df : string) (c : cfg) : res :=
  match pend c with
  | Some l =>
      match should_shift (ns c) impl_and with
      | Panic s => Crash s
      | Ret true => Next {| rs := IExp l :: ITok impl_and :: rs c; ns := impl_and :: ns c; toks := toks c; pend := None |}
      | Ret false => do_reduce c df
      end
  | None =>
    let next := hd eof (toks c) in
    if is TEOF next && Nat.eqb (List.length (rs c)) 1 then
      match rs c with
      | [IExp e] =>
          if is_leaf_op (e_op e) && negb (String.eqb df "")
          then match eq_ (VCol df) (VExp e) with Ret e' => Accept e' | Panic s => Crash s end
          else Accept e
      | _ => Reject
      end
    else
      match should_shift (ns c) next with
      | Panic s => Crash s
      | Ret true =>
          if is_terminal next then
            let l := parse_literal next in
            match rs c with
            | IExp _ :: _ => Next {| rs := rs c; ns := ns c; toks := tl (toks c); pend := Some l |}
            | _ => Next {| rs := IExp l :: rs c; ns := ns c; toks := tl (toks c); pend := None |}
            end
          else Next {| rs := ITok next :: rs c; ns := next :: ns c; toks := tl (toks c); pend := None |}
      | Ret false => do_reduce c df
      end
  end.

Inductive presult := PTree (e : expr) | PErr | PPanic (s : string) | POutOfFuel.

Fixpoint run (fuel : nat) (df : string) (c : cfg) : presult :=
  match fuel with
  | 0 => POutOfFuel
  | S f => match step df c with
           | Next c' => run f df c'
           | Accept e => PTree e
           | Reject => PErr
           | Crash s => PPanic s
           end
  end.

(* ---------- Validate ---------- *)
Definition is_literal_expr (v : value) : bool :=
  match v with VExp e => is_leaf_op (e_op e) && is_literal (e_left e) | _ => false end.
Definition is_nil (v : value) : bool := match v with VNil => true | _ => false end.

Definition is_bound (v : value) : bool := match v with VBound _ _ _ => true | _ => false end.

Definition validate_node (e : expr) : bool :=
  let l := e_left e in let r := e_right e in
  (* a range boundary is only valid as the right side of RANGE *)
  (match e_op e with Range => true | _ => negb (is_bound l) && negb (is_bound r) end) &&
  match e_op e with
  | Equals | Greater | Less | GreaterEq | LessEq => is_literal_expr l
  | And | Or => negb (is_nil l) && negb (is_nil r)
  | Not | Must | MustNot | Boost | Fuzzy => negb (is_nil l) && is_nil r
  | Range =>
      negb (is_nil l) && negb (is_nil r) && is_literal_expr l &&
      match r with VBound mn mx _ => negb (is_nil mn) && negb (is_nil mx) && is_literal_expr mn && is_literal_expr mx | _ => false end
  | Literal | Wild | Regexp => negb (is_nil l) && is_nil r && is_literal l
  | Like => negb (is_nil l) && is_literal_expr l && match r with VExp x => match e_op x with Wild | Regexp => true | _ => false end | _ => false end
  | In => negb (is_nil l) && is_literal_expr l && match r with VExp x => op_eqb (e_op x) List | _ => false end
  | List => negb (is_nil l) && is_nil r && match l with VList xs => forallb (fun x => is_literal_expr (VExp x)) xs | _ => false end
  | Undefined => false
  end.

Fixpoint validate (e : expr) : bool :=
  validate_node e &&
  match e with
  | E l _ r _ _ =>
      (match l with VExp x => validate x | _ => true end) &&
      (match r with VExp x => validate x | _ => true end)
  end.

Definition parse_toks (df : string) (ts : list token) : presult :=
  match run (4 * List.length ts + 4) df {| rs := []; ns := [start]; toks := ts; pend := None |} with
  | PTree e => if validate e then PTree e else PErr
  | r => r
  end.

End WithOracle.

