(* Shared helpers of the correspondence check and property search.
   Reads observation lines produced by `observe run` (the implementation built from /repo's working tree), runs the
   extracted Coq model (Model) on the same inputs, compares the projected observables component by component, and
   evaluates the per-property checks on the IMPLEMENTATION's observations. Writes a JSON report.

     driver <oracle-binary> <report.json>  < observations                                                   *)
open Model

(* ---------- numbers ---------- *)
let rec pos_of_int64 (n : int64) : positive =
  if n = 1L then XH else if Int64.rem n 2L = 0L then XO (pos_of_int64 (Int64.div n 2L)) else XI (pos_of_int64 (Int64.div n 2L))
let z_of_int64 (n : int64) : z =
  if n = 0L then Z0 else if n > 0L then Zpos (pos_of_int64 n)
  else if n = Int64.min_int then Zneg (XO (pos_of_int64 (Int64.shift_left 1L 62)))
  else Zneg (pos_of_int64 (Int64.neg n))
let rec int64_of_pos (p : positive) : int64 =
  match p with XH -> 1L | XO q -> Int64.mul 2L (int64_of_pos q) | XI q -> Int64.add 1L (Int64.mul 2L (int64_of_pos q))
let int64_of_z (x : z) : int64 = match x with Z0 -> 0L | Zpos p -> int64_of_pos p | Zneg p -> Int64.neg (int64_of_pos p)
let rec int_of_nat (n : nat) : int = match n with O -> 0 | S m -> 1 + int_of_nat m
let rec int_of_pos (p : positive) : int = match p with XH -> 1 | XO q -> 2 * int_of_pos q | XI q -> 2 * int_of_pos q + 1
let int_of_n (x : n) : int = match x with N0 -> 0 | Npos p -> int_of_pos p
(* Z values beyond int64 (the model's Z is unbounded, Go's int is not): printed in decimal by repeated division *)
let z_in_int64 (x : z) : bool =
  let rec bits p = match p with XH -> 1 | XO q | XI q -> 1 + bits q in
  match x with Z0 -> true | Zpos p -> bits p <= 63 | Zneg p -> bits p <= 63 || x = Zneg (XO (pos_of_int64 (Int64.shift_left 1L 62)))
let bits (x : z) : string = if z_in_int64 x then Int64.to_string (int64_of_z x) else "BIG"

(* ---------- strings ---------- *)
let string_of_chars (l : char list) : string = let b = Buffer.create 16 in List.iter (Buffer.add_char b) l; Buffer.contents b
let chars_of_string (s : string) : char list = List.init (String.length s) (String.get s)
let hexs (s : string) : string = let b = Buffer.create (2 * String.length s) in String.iter (fun c -> Buffer.add_string b (Printf.sprintf "%02x" (Char.code c))) s; Buffer.contents b
let hex (l : char list) : string = hexs (string_of_chars l)
let unhexs (s : string) : string = String.init (String.length s / 2) (fun i -> Char.chr (int_of_string ("0x" ^ String.sub s (2 * i) 2)))
let unhex (s : string) : char list = chars_of_string (unhexs s)
let contains (s : string) (sub : string) : bool =
  let n = String.length s and m = String.length sub in
  let rec go i = i + m <= n && (String.sub s i m = sub || go (i + 1)) in m = 0 || go 0
let starts_with (s : string) (p : string) = String.length s >= String.length p && String.sub s 0 (String.length p) = p

(* ---------- oracle client: the Go standard library, asked over a pipe, answers cached ---------- *)
let (oin, oout) = Unix.open_process Sys.argv.(1)
let cache : (string, string) Hashtbl.t = Hashtbl.create 65536
let queries = ref 0
let ask (q : string) : string =
  match Hashtbl.find_opt cache q with
  | Some a -> a
  | None -> incr queries; output_string oout (q ^ "\n"); flush oout; let a = input_line oin in Hashtbl.add cache q a; a

let pf (cs : char list) : z option =
  let a = ask ("F " ^ hex cs) in
  if a = "err" then None else Some (z_of_int64 (Int64.of_string (String.sub a 3 (String.length a - 3))))
let props b = Scanf.sscanf (ask ("P " ^ bits b)) "%d %d" (fun a c -> (a = 1, c = 1))
let orc : oracle = {
  parse_float = pf;
  is_nan_or_inf = (fun b -> fst (props b));
  float_pos = (fun b -> snd (props b));
  float_of_int = (fun z -> z_of_int64 (Int64.of_string (ask ("I " ^ bits z))));
}
let orc2 : oracle2 = {
  fmt_v = (fun b -> unhex (ask ("V " ^ bits b)));
  fmt_2f = (fun b -> unhex (ask ("2 " ^ bits b)));
  fmt_1f = (fun b -> unhex (ask ("1 " ^ bits b)));
  f_gt1 = (fun b -> Int64.float_of_bits (int64_of_z b) > 1.0);
  go_quote = (fun s -> unhex (ask ("Q " ^ hex s)));
  json_str = (fun s -> unhex (ask ("J " ^ hex s)));
  json_num = (fun b -> let a = ask ("N " ^ bits b) in if a = "err" then None else Some (unhex a));
  pfloat = pf;
  valid_utf8 = (fun s -> ask ("U " ^ hex s) = "1");
}
let cls : classes = {
  is_letter = (fun r -> ask ("L " ^ string_of_int (int_of_n r)) = "1");
  is_digit = (fun r -> ask ("D " ^ string_of_int (int_of_n r)) = "1");
}

(* ---------- tables ---------- *)
let toktypes : toktype array = Array.of_list toktype_order
let typnum (t : toktype) : int = int_of_nat (prec t)
let toktype_of_int (i : int) : toktype option = if i >= 0 && i < Array.length toktypes then Some toktypes.(i) else None
let operators : operator array = Array.of_list operator_order
let opnum (o : operator) : int = let r = ref (-1) in Array.iteri (fun i x -> if x = o then r := i) operators; !r

(* ---------- S-expressions of trees (same format as the observer) ---------- *)
let rec show_value (v : value) : string = match v with
  | VNil -> "nil" | VInt z -> "i" ^ bits z | VFloat b -> "f" ^ bits b | VStr s -> "s" ^ hex s
  | VBool b -> if b then "bt" else "bf" | VCol s -> "c" ^ hex s | VExp e -> show_expr e
  | VList l -> "[" ^ String.concat " " (List.map show_expr l) ^ "]"
  | VBound (a, b, i) -> "{" ^ show_value a ^ " " ^ show_value b ^ " " ^ (if i then "t" else "f") ^ "}"
and show_expr (e : expr) : string = match e with
  | E (l, o, r, b, f) -> Printf.sprintf "(%d %s %s %s %s)" (opnum o) (show_value l) (show_value r) (bits b) (bits f)

exception Unmodelled of string
(* parse the observer's S-expression back into a model tree *)
let parse_tree (s : string) : expr =
  let n = String.length s in
  let pos = ref 0 in
  let skip () = while !pos < n && s.[!pos] = ' ' do incr pos done in
  let word () = let st = !pos in
    while !pos < n && not (List.mem s.[!pos] [' '; ')'; ']'; '}']) do incr pos done; String.sub s st (!pos - st) in
  let rec value () : value =
    skip ();
    match s.[!pos] with
    | '(' -> VExp (expr ())
    | '[' -> incr pos; let acc = ref [] in skip ();
             while s.[!pos] <> ']' do acc := expr () :: !acc; skip () done; incr pos; VList (List.rev !acc)
    | '{' -> incr pos; let a = value () in let b = value () in skip ();
             let i = s.[!pos] = 't' in incr pos; skip (); incr pos; VBound (a, b, i)
    | _ ->
      let w = word () in
      if w = "nil" then VNil else if w = "bt" then VBool true else if w = "bf" then VBool false
      else match w.[0] with
        | 'i' -> VInt (z_of_int64 (Int64.of_string (String.sub w 1 (String.length w - 1))))
        | 'f' -> VFloat (z_of_int64 (Int64.of_string (String.sub w 1 (String.length w - 1))))
        | 's' -> VStr (unhex (String.sub w 1 (String.length w - 1)))
        | 'c' -> VCol (unhex (String.sub w 1 (String.length w - 1)))
        | _ -> raise (Unmodelled w)
  and expr () : expr =
    skip ();
    if s.[!pos] <> '(' then raise (Unmodelled (word ()));
    incr pos;
    let o = int_of_string (word ()) in
    let l = value () in let r = value () in skip ();
    let b = z_of_int64 (Int64.of_string (word ())) in skip ();
    let f = z_of_int64 (Int64.of_string (word ())) in skip ();
    incr pos;
    if o < 0 || o >= Array.length operators then raise (Unmodelled "operator") else E (l, operators.(o), r, b, f) in
  expr ()

(* tokens "typ:hex typ:hex" *)
let parse_tok (t : string) : token =
  match String.split_on_char ':' t with
  | [n; h] -> (match toktype_of_int (int_of_string n) with Some ty -> { typ = ty; val0 = unhex h } | None -> raise (Unmodelled "toktype"))
  | _ -> raise (Unmodelled "token")
let show_tok (t : token) : string = Printf.sprintf "%d:%s" (typnum t.typ) (if t.typ = TErr then "" else hex t.val0)
let show_toks (l : token list) : string = String.concat " " (List.map show_tok l)

(* spec trees "(and A B)" ... *)
let parse_qt (s : string) : qt =
  let toks = ref (List.filter (fun x -> x <> "") (String.split_on_char ' '
     (String.concat " ( " (String.split_on_char '(' (String.concat " ) " (String.split_on_char ')' s)))))) in
  let next () = match !toks with t :: r -> toks := r; t | [] -> failwith "qt eof" in
  let tok () = parse_tok (next ()) in
  let opt () = match !toks with "-" :: r -> toks := r; None | _ -> Some (tok ()) in
  let rec node () : qt =
    if next () <> "(" then failwith "qt (";
    let k = next () in
    let r = match k with
      | "term" -> QTerm (tok ())
      | "fv" -> let f = tok () in let c = tok () in let v = tok () in QFv (f, c, v)
      | "cmp" -> let f = tok () in let c = tok () in let m = tok () in let e = opt () in let v = tok () in QCmp (f, c, m, e, v)
      | "range" -> let f = tok () in let c = tok () in let o = tok () in let lo = tok () in let t = tok () in let hi = tok () in let cl = tok () in
                   QRange (f, c, o, lo, t, hi, cl)
      | "fe" -> let f = tok () in let c = tok () in let a = node () in QFe (f, c, a)
      | "and" -> let a = node () in let b = node () in QAnd (a, b)
      | "or" -> let a = node () in let b = node () in QOr (a, b)
      | "not" -> QNot (node ()) | "must" -> QMust (node ()) | "mustnot" -> QMustNot (node ()) | "par" -> QPar (node ())
      | "boost" -> let a = node () in let n = opt () in QBoost (a, n)
      | "fuzzy" -> let a = node () in let n = opt () in QFuzzy (a, n)
      | _ -> failwith ("qt kind " ^ k) in
    if next () <> ")" then failwith "qt )";
    r in
  node ()

(* CST emitted by the observer *)
let parse_cst (s : string) : jv =
  let toks = ref (List.filter (fun x -> x <> "") (String.split_on_char ' ' s)) in
  let next () = match !toks with t :: r -> toks := r; t | [] -> failwith "cst eof" in
  let peek () = match !toks with t :: _ -> t | [] -> "" in
  let pair t = match String.split_on_char ':' (String.sub t 1 (String.length t - 1)) with [a; b] -> (unhex a, unhex b) | _ -> failwith "pair" in
  let rec value () : jv =
    let t = next () in
    match t.[0] with
    | 'n' -> JNull | 't' -> JTrue | 'f' -> JFalse
    | '#' -> JNum (unhex (String.sub t 1 (String.length t - 1)))
    | 's' -> let (r, d) = pair t in JStr (r, d)
    | '[' -> let acc = ref [] in while peek () <> "]" do acc := value () :: !acc done; ignore (next ()); JArr (List.rev !acc)
    | '{' -> let acc = ref [] in
             while peek () <> "}" do let (r, d) = pair (next ()) in let v = value () in acc := ((r, d), v) :: !acc done;
             ignore (next ()); JObj (List.rev !acc)
    | _ -> failwith ("cst " ^ t) in
  value ()

(* ---------- report ---------- *)
let jstr (s : string) : string =
  let b = Buffer.create (String.length s + 2) in
  Buffer.add_char b '"';
  String.iter (fun c -> match c with
    | '"' -> Buffer.add_string b "\\\"" | '\\' -> Buffer.add_string b "\\\\"
    | c when Char.code c < 32 || Char.code c >= 127 -> Buffer.add_string b (Printf.sprintf "\\u%04x" (Char.code c))
    | c -> Buffer.add_char b c) s;
  Buffer.add_char b '"'; Buffer.contents b

let counters : (string, int) Hashtbl.t = Hashtbl.create 64
let bump ?(by = 1) k = Hashtbl.replace counters k (by + (try Hashtbl.find counters k with Not_found -> 0))
let count k = try Hashtbl.find counters k with Not_found -> 0

let max_records = 40
let mismatches : (string * (string * string) list) list ref = ref []     (* correspondence disagreements *)
let failures : (string * (string * string) list) list ref = ref []       (* property check failures on the implementation *)
let current_case = ref ""
let extra_case = ref ""
let with_case fields = fields @ [("case", !current_case)] @ (if !extra_case <> "" then [("case_a", !extra_case)] else [])
let record_mismatch comp fields =
  let fields = with_case fields in
  bump ("corr_mismatch." ^ comp);
  if count ("corr_mismatch." ^ comp) <= max_records then mismatches := (comp, fields) :: !mismatches
let record_failure prop fields =
  let fields = with_case fields in
  let cls = try List.assoc "class" fields with Not_found -> "" in
  bump ("prop_fail." ^ prop); bump ("prop_fail_class." ^ prop ^ "." ^ cls);
  if count ("prop_fail_class." ^ prop ^ "." ^ cls) <= max_records then failures := (prop, fields) :: !failures
let samples : (string, string list) Hashtbl.t = Hashtbl.create 16
let sample kind (s : string) =
  let l = try Hashtbl.find samples kind with Not_found -> [] in
  if List.length l < 4 then Hashtbl.replace samples kind (s :: l)
let distinct : (string, (string, unit) Hashtbl.t) Hashtbl.t = Hashtbl.create 16
let note_distinct kind (key : string) =
  let h = try Hashtbl.find distinct kind with Not_found -> let h = Hashtbl.create 4096 in Hashtbl.add distinct kind h; h in
  if not (Hashtbl.mem h key) then Hashtbl.add h key ()

(* ---------- model outputs in the observer's format ---------- *)
let flag (g : gerr) = match g with None -> "|0" | Some _ -> "|1"
let m_sres (x : sres out) : string = match x with Ret (s, g) -> "x" ^ hex s ^ flag g | Panic _ -> "PANIC"
let m_pres (x : pres out) : string =
  match x with Ret ((s, ps), g) -> "x" ^ hex s ^ "#" ^ String.concat "," (List.map show_value ps) ^ flag g | Panic _ -> "PANIC"
(* returns (text, opaque) *)
let m_str (verbose : bool) (e : expr) : string * bool =
  match str_e orc2 verbose e with Ret t -> ("x" ^ hex t.txt, t.opaque) | Panic _ -> ("PANIC", false)
let m_marshal (e : expr) : string = match marshal_e orc2 e with Ret (Some s) -> "x" ^ hex s | Ret None -> "ERR" | Panic _ -> "PANIC"

(* compares the five renderers of one tree with five observation fields *)
let compare_renders (comp : string) (input : (string * string) list) (e : expr) (o : string array) (base : int) =
  let chk name i m = bump ("corr." ^ comp ^ name);
    if o.(base + i) <> m && o.(base + i) <> "SKIPPED" then record_mismatch (comp ^ name) (input @ [("go", o.(base + i)); ("model", m)]) in
  let (s, op1) = m_str false e in if not op1 then chk "String" 0 s;
  let (g, op2) = m_str true e in if not op2 then chk "GoString" 1 g;
  chk "Render" 2 (m_sres (render orc2 e));
  chk "RenderParam" 3 (m_pres (render_param orc2 e));
  chk "Marshal" 4 (m_marshal e)

let tag_get (tag : string) (k : string) : string option =
  let parts = String.split_on_char ';' tag in
  List.fold_left (fun acc p ->
    match acc with Some _ -> acc | None ->
      let kl = String.length k + 1 in
      if String.length p >= kl && String.sub p 0 kl = k ^ "=" then Some (String.sub p kl (String.length p - kl)) else None) None parts

let is_bad (s : string) = s = "PANIC" || s = "HANG" || contains s "UNBOUNDED"
let xtext (s : string) : string option = (* "x<hex>..." -> text *)
  if starts_with s "x" then
    let body = String.sub s 1 (String.length s - 1) in
    let h = match String.index_opt body '|' with Some i -> String.sub body 0 i | None -> body in
    let h = match String.index_opt h '#' with Some i -> String.sub h 0 i | None -> h in
    Some (unhexs h)
  else None
let eflag (s : string) : string = if String.length s >= 2 then String.sub s (String.length s - 2) 2 else ""
let params_of (s : string) : string = (* "x<hex>#params|f" *)
  match String.index_opt s '#' with
  | Some i -> let r = String.sub s (i + 1) (String.length s - i - 1) in String.sub r 0 (String.length r - 2)
  | None -> ""

(* relational groups: (rel, group id) -> role a observation *)
type qobs = { q : string; df : string; tag : string; o : string array; line : string; mtree : expr option (* the model's parse of q: the meaning of the query text *) }
let pending : (string, qobs) Hashtbl.t = Hashtbl.create 1024

let tree_of_parse (p : string) : string option = (* "tree|0" -> tree *)
  if String.length p > 2 && eflag p = "|0" && p.[0] = '(' then Some (String.sub p 0 (String.length p - 2)) else None

