package main

import "fmt"

func raceMain(args []string) { fmt.Println("race: not built in this binary") }
