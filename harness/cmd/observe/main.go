// observe: runs the implementation (built from /repo's current working tree) on case lines and prints one
// observation line per case, in the canonical projected form the OCaml driver compares with the model.
//
//	observe gen <mode> -seed S -n N -tier quick|thorough   writes case lines
//	observe run                                            reads case lines on stdin, writes observation lines
//
// Case lines (tab separated):
//
//	L <hex input> <script of N/P>
//	Q <hex query> <hex default field> <tag>
//	J <hex json document> <tag>
//	D <hex query> <mapspec> <tag>
package main

import (
	"bufio"
	"encoding/hex"
	"encoding/json"
	"fmt"
	"math"
	"os"
	"reflect"
	"strings"
	"time"

	lucene "github.com/grindlemire/go-lucene"
	"github.com/grindlemire/go-lucene/internal/lex"
	"github.com/grindlemire/go-lucene/pkg/driver"
	"github.com/grindlemire/go-lucene/pkg/lucene/expr"
)

func hx(s string) string { return hex.EncodeToString([]byte(s)) }

func unhx(s string) string {
	b, err := hex.DecodeString(s)
	if err != nil {
		panic("bad hex in case line: " + s)
	}
	return string(b)
}

func showValue(v any) string {
	switch x := v.(type) {
	case nil:
		return "nil"
	case int:
		return fmt.Sprintf("i%d", x)
	case float64:
		return fmt.Sprintf("f%d", int64(math.Float64bits(x)))
	case string:
		return "s" + hx(x)
	case bool:
		if x {
			return "bt"
		}
		return "bf"
	case expr.Column:
		return "c" + hx(string(x))
	case *expr.Expression:
		if x == nil {
			return "nilexpr"
		}
		return showExpr(x)
	case []*expr.Expression:
		s := []string{}
		for _, e := range x {
			if e == nil {
				s = append(s, "nilexpr")
			} else {
				s = append(s, showExpr(e))
			}
		}
		return "[" + strings.Join(s, " ") + "]"
	case *expr.RangeBoundary:
		if x == nil {
			return "nilbound"
		}
		i := "f"
		if x.Inclusive {
			i = "t"
		}
		return "{" + showValue(x.Min) + " " + showValue(x.Max) + " " + i + "}"
	}
	return fmt.Sprintf("other<%T>", v)
}

func showExpr(e *expr.Expression) string {
	rv := reflect.ValueOf(e).Elem()
	bp := rv.FieldByName("boostPower").Float()
	fd := rv.FieldByName("fuzzyDistance").Int()
	return fmt.Sprintf("(%d %s %s %d %d)", int(e.Op), showValue(e.Left), showValue(e.Right), int64(math.Float64bits(bp)), fd)
}

var hangs = 0

const maxHangs = 3

var caseTimeout = 10 * time.Second

// guard runs f under recover and a watchdog: PANIC and HANG are observables.
func guard(f func() string) string {
	if hangs >= maxHangs {
		return "SKIPPED"
	}
	ch := make(chan string, 1)
	go func() {
		defer func() {
			if r := recover(); r != nil {
				ch <- "PANIC"
			}
		}()
		ch <- f()
	}()
	select {
	case s := <-ch:
		return s
	case <-time.After(caseTimeout):
		hangs++
		return "HANG"
	}
}

var pg = driver.NewPostgresDriver()

func errflag(err error) string {
	if err != nil {
		return "|1"
	}
	return "|0"
}

func showParams(ps []any) string {
	p := []string{}
	for _, x := range ps {
		p = append(p, showValue(x))
	}
	return strings.Join(p, ",")
}

func lexTokens(q string) string {
	return guard(func() string {
		l := lex.Lex(q)
		toks := []string{}
		for i := 0; i < len(q)+2; i++ {
			t := l.Next()
			v := t.Val
			if t.Typ == lex.TErr {
				v = ""
			}
			toks = append(toks, fmt.Sprintf("%d:%s", int(t.Typ), hx(v)))
			if t.Typ == lex.TEOF || t.Typ == lex.TErr {
				return strings.Join(toks, " ")
			}
		}
		return strings.Join(toks, " ") + " UNBOUNDED"
	})
}

func parseWith(q, df string) (*expr.Expression, error) {
	if df != "" {
		return lucene.Parse(q, lucene.WithDefaultField(df))
	}
	return lucene.Parse(q)
}

// every result that holds memory (a tree, a parameter list, encoded bytes) is shown only AFTER one more call of the same kind
// has been made with other arguments: a result that aliases state shared between calls (a pooled buffer, a reused slice)
// then shows up as a wrong observation.
var interfering = "zq:17 AND (yq:w*y OR NOT xq:[2.5 TO *]) AND vq:(p OR q) AND uq:\"s t\" AND tq:9 AND sq:8 AND rq:7"

func interfere() {
	defer func() { recover() }()
	if ex, err := lucene.Parse(interfering); err == nil && ex != nil {
		pg.RenderParam(ex)
		json.Marshal(ex)
	}
	lucene.ToParameterizedPostgres(interfering)
}

func renderAll(e *expr.Expression) []string {
	return []string{
		guard(func() string { return "x" + hx(e.String()) }),
		guard(func() string { return "x" + hx(fmt.Sprintf("%#v", e)) }),
		guard(func() string {
			s, err := pg.Render(e)
			return "x" + hx(s) + errflag(err)
		}),
		guard(func() string {
			s, ps, err := pg.RenderParam(e)
			interfere()
			return "x" + hx(s) + "#" + showParams(ps) + errflag(err)
		}),
		guard(func() string {
			b, err := json.Marshal(e)
			if err != nil {
				return "ERR"
			}
			interfere()
			return "x" + hx(string(b))
		}),
	}
}

// every case is preceded by calls on the SAME query text under OTHER options (another default field; none at all): the result of
// a call is a function of its arguments, so what an earlier call with the same text left behind (a statement or a tree kept
// under a key that does not hold all the arguments) shows up as a wrong observation of the case itself.
func prime(q, df string) {
	if len(q) > 4096 {
		return // the size ladders measure cost; state kept between calls does not need a giant text to show
	}
	defer func() { recover() }()
	other := "pq"
	if df != "" {
		other = "pq_" + df
		lucene.Parse(q)
		lucene.ToPostgres(q)
		lucene.ToParameterizedPostgres(q)
	}
	lucene.Parse(q, lucene.WithDefaultField(other))
	lucene.ToPostgres(q, lucene.WithDefaultField(other))
	lucene.ToParameterizedPostgres(q, lucene.WithDefaultField(other))
}

func observeQuery(q, df string) []string {
	prime(q, df)
	out := []string{lexTokens(q)}
	var e *expr.Expression
	res := guard(func() string {
		ex, err := parseWith(q, df)
		interfere()
		s := "nil"
		if ex != nil {
			s = showExpr(ex)
			if err == nil {
				e = ex
			}
		}
		return s + errflag(err)
	})
	out = append(out, res)
	// the package's own Validate on the returned tree
	if e != nil {
		out = append(out, guard(func() string {
			if expr.Validate(e) != nil {
				return "invalid"
			}
			return "ok"
		}))
		out = append(out, renderAll(e)...)
	} else {
		out = append(out, "-", "-", "-", "-", "-", "-")
	}
	// public wrappers
	out = append(out, guard(func() string {
		var s string
		var err error
		if df != "" {
			s, err = lucene.ToPostgres(q, lucene.WithDefaultField(df))
		} else {
			s, err = lucene.ToPostgres(q)
		}
		return "x" + hx(s) + errflag(err)
	}))
	out = append(out, guard(func() string {
		var s string
		var ps []any
		var err error
		if df != "" {
			s, ps, err = lucene.ToParameterizedPostgres(q, lucene.WithDefaultField(df))
		} else {
			s, ps, err = lucene.ToParameterizedPostgres(q)
		}
		interfere()
		return "x" + hx(s) + "#" + showParams(ps) + errflag(err)
	}))
	// JSON round trip of the returned tree
	if e != nil {
		var d *expr.Expression
		var b []byte
		out = append(out, guard(func() string {
			var err error
			b, err = json.Marshal(e)
			if err != nil {
				return "MERR"
			}
			var dec expr.Expression
			if err := json.Unmarshal(b, &dec); err != nil {
				return "ERR"
			}
			d = &dec
			return showExpr(d)
		}))
		if d != nil {
			out = append(out, guard(func() string {
				if expr.Validate(d) != nil {
					return "invalid"
				}
				return "ok"
			}))
			out = append(out, guard(func() string {
				if reflect.DeepEqual(e, d) {
					return "deep-equal"
				}
				return "not-deep-equal"
			}))
			out = append(out, renderAll(d)...)
		} else {
			out = append(out, "-", "-", "-", "-", "-", "-", "-")
		}
		// concrete syntax tree of the encoder's output, for the model's decoder
		if b != nil && json.Valid(b) {
			var cst strings.Builder
			(&sc{b: b}).val(&cst)
			out = append(out, strings.TrimSpace(cst.String()))
		} else {
			out = append(out, "-")
		}
	} else {
		out = append(out, "-", "-", "-", "-", "-", "-", "-", "-", "-")
	}
	out = append(out, guard(func() string { return apiRelations(q, df, e) }))
	return out
}

// relations between calls of the public API on one input, decided here (the driver only reads the verdict):
//   - a query is accepted under two default fields that it does not mention exactly when it is accepted without one (C11, and
//     C16: a lexical error makes Parse fail whatever the options);
//   - decoding the encoder's bytes into a variable that already holds another expression gives what decoding into a fresh one
//     gives (C12: "decoding those bytes" has one result);
//   - Validate, String, %#v, Render, RenderParam and Marshal leave the expression as it was (C14).
var usedTarget = `{"left":{"left":"zq","operator":"EQUALS","right":"zr"},"operator":"AND","right":{"left":"zs","operator":"RANGE","right":{"min":1,"max":2,"inclusive":true}}}`

func apiRelations(q, df string, e *expr.Expression) string {
	if len(q) > 4096 {
		return "-"
	}
	if !strings.Contains(q, "zq1") && !strings.Contains(q, "zq2") {
		_, err0 := lucene.Parse(q)
		_, err2 := lucene.Parse(q, lucene.WithDefaultField("zq1"), lucene.WithDefaultField("zq2"))
		if err2 == nil && err0 != nil {
			l := lex.Lex(q)
			for {
				t := l.Next()
				if t.Typ == lex.TErr {
					return "DIFF:C16:lexical-error-accepted-under-two-default-fields"
				}
				if t.Typ == lex.TEOF {
					break
				}
			}
		}
		if (err0 == nil) != (err2 == nil) {
			return "DIFF:C11:acceptance-differs-under-two-unused-default-fields"
		}
	}
	// the options handed to Parse belong to the caller: a slice with spare capacity must come back as it went in
	{
		full := append(spare(lucene.WithDefaultField("zq1"), 4), lucene.WithDefaultField("zq2"))
		head := full[:1]
		r1, e1 := lucene.Parse(q, full...)
		lucene.Parse(q, head...)
		r2, e2 := lucene.Parse(q, full...)
		if (e1 == nil) != (e2 == nil) || (e1 == nil && r1 != nil && r2 != nil && showExpr(r1) != showExpr(r2)) {
			return "DIFF:C14:Parse-writes-into-the-options-slice-of-its-caller"
		}
	}
	if e == nil {
		return "ok"
	}
	before := showExpr(e)
	b, err := json.Marshal(e)
	if err == nil {
		var fresh, used expr.Expression
		e1 := json.Unmarshal(b, &fresh)
		if json.Unmarshal([]byte(usedTarget), &used) == nil {
			e2 := json.Unmarshal(b, &used)
			if (e1 == nil) != (e2 == nil) || (e1 == nil && showExpr(&fresh) != showExpr(&used)) {
				return "DIFF:C12:decoding-into-a-used-variable-differs-from-decoding-into-a-fresh-one"
			}
		}
	}
	expr.Validate(e)
	_ = e.String()
	_ = fmt.Sprintf("%#v", e)
	pg.Render(e)
	pg.RenderParam(e)
	if showExpr(e) != before {
		return "DIFF:C14:expression-modified-by-validate-print-render-or-encode"
	}
	return "ok"
}

func spare[T any](x T, capacity int) []T { return append(make([]T, 0, capacity), x) }

// lexer with a script of Next (N) / Peek (P) calls
func observeLex(in, script string) []string {
	return []string{guard(func() string {
		l := lex.Lex(in)
		res := []string{}
		for _, c := range script {
			var t lex.Token
			if c == 'P' {
				t = l.Peek()
			} else {
				t = l.Next()
			}
			v := t.Val
			if t.Typ == lex.TErr {
				v = ""
			}
			res = append(res, fmt.Sprintf("%c%d:%s", c, int(t.Typ), hx(v)))
		}
		return strings.Join(res, " ")
	})}
}

func main() {
	if len(os.Args) < 2 {
		fmt.Fprintln(os.Stderr, "usage: observe gen <mode> ... | observe run")
		os.Exit(2)
	}
	switch os.Args[1] {
	case "gen":
		genMain(os.Args[2:])
	case "run":
		runMain()
	case "race":
		raceMain(os.Args[2:])
	default:
		fmt.Fprintln(os.Stderr, "unknown subcommand")
		os.Exit(2)
	}
}

func runMain() {
	sc := bufio.NewScanner(os.Stdin)
	sc.Buffer(make([]byte, 1<<24), 1<<24)
	w := bufio.NewWriterSize(os.Stdout, 1<<20)
	defer w.Flush()
	if s := os.Getenv("OBSERVE_TIMEOUT_MS"); s != "" {
		var ms int
		fmt.Sscan(s, &ms)
		caseTimeout = time.Duration(ms) * time.Millisecond
	}
	for sc.Scan() {
		line := sc.Text()
		f := strings.Split(line, "\t")
		var obs []string
		switch f[0] {
		case "L":
			obs = observeLex(unhx(f[1]), f[2])
		case "Q":
			obs = observeQuery(unhx(f[1]), unhx(f[2]))
		case "J":
			obs = observeJSON(unhx(f[1]))
		case "D":
			obs = observeCustom(unhx(f[1]), f[2])
		default:
			continue
		}
		fmt.Fprintln(w, line+"\t|\t"+strings.Join(obs, "\t"))
	}
}
