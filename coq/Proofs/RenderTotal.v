(* Scratch: C01 clauses 3-4 — printers and the inline renderer never panic on well-formed trees,
   and String/GoString never hit a bad formatting verb *)
Require Import Parser ParserShape Render.
From Coq Require Import List Ascii String ZArith Bool Lia Arith.
Import ListNotations.

Section T.
Variable o2 : oracle2.

(* the shape the printers and the inline renderer rely on *)
Fixpoint eok (e : expr) {struct e} : bool :=
  match e with
  | E l op r _ _ =>
      vok l && vok r &&
      (match op with Range => match r with VBound _ _ _ => true | _ => false end | _ => true end) &&
      (match op with Tables.List => match l with VList _ => true | _ => false end | _ => true end)
  end
with vok (v : value) {struct v} : bool :=
  match v with
  | VExp e => eok e
  | VList l => (fix all (l : list expr) : bool := match l with [] => true | x :: r => eok x && all r end) l
  | VBound a b _ => vok a && vok b
  | _ => true
  end.

Definition is_ret {A} (x : out A) : Prop := exists a, x = Ret a.

Lemma bind_ret {A B} (x : out A) (k : A -> out B) : is_ret x -> (forall a, is_ret (k a)) -> is_ret (bind x k).
Proof. intros [a ->] Hk. cbn. apply Hk. Qed.

Lemma str_total : forall n,
  (forall e b, esize e <= n -> eok e = true -> is_ret (str_e o2 b e)) /\
  (forall v how, vsize v <= n -> vok v = true -> is_ret (str_v o2 how v)).
Proof.
  induction n as [|n [IHe IHv]].
  { split.
    - intros e b Hs. destruct e; cbn in Hs; lia.
    - intros v how Hs Hv. destruct v; try (eexists; reflexivity); cbn in Hs; try lia. destruct e; cbn in Hs; lia. }
  assert (HE : forall e b, esize e <= S n -> eok e = true -> is_ret (str_e o2 b e)).
  { intros e b Hs Hk. destruct e as [l op r bo fu]. cbn in Hs. cbn [eok] in Hk.
    apply andb_true_iff in Hk; destruct Hk as [Hk HB]. apply andb_true_iff in Hk; destruct Hk as [Hk HA]. apply andb_true_iff in Hk. destruct Hk as [Hl Hr].
    assert (SL : forall how, is_ret (str_v o2 how l)) by (intros; apply IHv; auto; lia).
    assert (SR : forall how, is_ret (str_v o2 how r)) by (intros; apply IHv; auto; lia).
    cbn [str_e]. destruct op;
      try (eexists; reflexivity);
      try (apply bind_ret; [apply SL|intros; try (apply bind_ret; [apply SR|intros]); eexists; reflexivity]).
    - (* Range *)
      destruct r as [| | | | | | | |mn mx incl]; try discriminate.
      cbn in Hr, Hs. apply andb_true_iff in Hr. destruct Hr as [Hmn Hmx].
      apply bind_ret; [apply SL|intros]. apply bind_ret; [apply IHv; auto; lia|intros].
      apply bind_ret; [apply IHv; auto; lia|intros]. eexists; reflexivity.
    - (* Literal / Wild / Regexp share a branch *)
      destruct b; [apply bind_ret; [apply SL|intros; eexists; reflexivity]|].
      destruct l; try (eexists; reflexivity); try apply SL.
      match goal with |- context [contains_char ?c ?x] => destruct (contains_char c x) end; eexists; reflexivity.
    - destruct b; [apply bind_ret; [apply SL|intros; eexists; reflexivity]|].
      destruct l; try (eexists; reflexivity); try apply SL.
      match goal with |- context [contains_char ?c ?x] => destruct (contains_char c x) end; eexists; reflexivity.
    - destruct b; [apply bind_ret; [apply SL|intros; eexists; reflexivity]|].
      destruct l; try (eexists; reflexivity); try apply SL.
      match goal with |- context [contains_char ?c ?x] => destruct (contains_char c x) end; eexists; reflexivity.
    - (* List *)
      destruct l as [| | | | | | |vals|]; try discriminate.
      apply bind_ret; [|intros; eexists; reflexivity].
      cbn in Hl, Hs. clear SL. revert Hl Hs. generalize (esize (E (VList vals) Tables.List r bo fu)). intros _.
      induction vals as [|x xs IHx]; intros Hl Hs; [eexists; reflexivity|].
      apply andb_true_iff in Hl. destruct Hl as [Hx Hxs]. cbn in Hs.
      apply bind_ret; [|intros; apply bind_ret; [apply IHx; auto; lia|intros; eexists; reflexivity]].
      destruct x as [xl xop xr xb xf]. cbn [e_left]. cbn [eok] in Hx.
      apply andb_true_iff in Hx; destruct Hx as [Hx _]. apply andb_true_iff in Hx; destruct Hx as [Hx _]. apply andb_true_iff in Hx. destruct Hx as [Hxl _].
      apply IHv; auto. cbn in Hs. lia. }
  split; [exact HE|].
  intros v how Hs Hv. destruct v; try (eexists; reflexivity).
  - cbn in Hs. cbn [str_v]. apply HE; auto.
  - (* VList *)
    cbn [str_v]. apply bind_ret; [|intros; eexists; reflexivity].
    cbn in Hv, Hs. revert Hv Hs. induction l as [|x xs IHx]; intros Hv Hs; [eexists; reflexivity|].
    apply andb_true_iff in Hv. destruct Hv as [Hx Hxs].
    apply bind_ret; [apply IHe; auto; lia|intros]. apply bind_ret; [apply IHx; auto; lia|intros; eexists; reflexivity].
  - cbn in Hv, Hs. apply andb_true_iff in Hv. destruct Hv as [H1 H2]. cbn [str_v].
    apply bind_ret; [apply IHv; auto; lia|intros]. apply bind_ret; [apply IHv; auto; lia|intros; eexists; reflexivity].
Qed.


(* ---------- no bad formatting verb on strictly well-formed trees ---------- *)
Definition good (x : out ftext) : Prop := forall t, x = Ret t -> bad t = false.

Lemma good_ret t : bad t = false -> good (Ret t).
Proof. intros H t' E. inversion E; subst. exact H. Qed.
Lemma good_bind (x : out ftext) (k : ftext -> out ftext) :
  good x -> (forall a, bad a = false -> good (k a)) -> good (bind x k).
Proof. intros Hx Hk t. destruct x as [a|s]; cbn; [|discriminate]. intros E. apply (Hk a (Hx a eq_refl) t E). Qed.

Lemma bad_cats l : forallb (fun t => negb (bad t)) l = true -> bad (cats l) = false.
Proof.
  induction l as [|x xs IH]; cbn; auto. intros H. apply andb_true_iff in H. destruct H as [Hx Hxs].
  apply negb_true_iff in Hx. rewrite Hx, (IH Hxs). reflexivity.
Qed.
Lemma bad_joinf sep l : forallb (fun t => negb (bad t)) l = true -> bad (joinf sep l) = false.
Proof.
  induction l as [|x xs IH]; cbn; auto. intros H. apply andb_true_iff in H. destruct H as [Hx Hxs].
  apply negb_true_iff in Hx. destruct xs; [exact Hx|]. cbn [cat bad ok]. rewrite Hx, (IH Hxs). reflexivity.
Qed.

Ltac good_cats := apply good_ret; cbn [bad cat cats ok]; repeat match goal with H : bad _ = false |- _ => rewrite H end; reflexivity.

Lemma leaf_value_good (how : nat) v : leaf_val v = true -> how <> 0 -> good (str_v o2 how v).
Proof.
  intros Hv Hh. destruct v; cbn in Hv; try discriminate; cbn [str_v]; apply good_ret;
    destruct how as [|[|[|?]]]; try contradiction; reflexivity.
Qed.

(* renderList: the loop over the list's elements, as a named function *)
Fixpoint each_list (b : bool) (vs : list expr) : out (list ftext) :=
  match vs with
  | [] => Ret []
  | x :: rest => bind (str_v o2 (if b then 2 else 1) (e_left x)) (fun a0 => bind (each_list b rest) (fun b0 => Ret (a0 :: b0)))
  end.
Lemma str_v_exp how x : str_v o2 how (VExp x) = str_e o2 (vb how) x.
Proof. reflexivity. Qed.
Lemma str_list_eq b vals r bo fu :
  str_e o2 b (E (VList vals) Tables.List r bo fu) =
  bind (each_list b vals) (fun xs => if b then Ret (cats [ok "LIST("%string; joinf ", "%string xs; ok ")"%string]) else Ret (cats [ok "("%string; joinf ", "%string xs; ok ")"%string])).
Proof.
  cbn [str_e]. destruct b.
  - f_equal. induction vals as [|x xs IHx]; [reflexivity|]. cbn [each_list]. rewrite <- IHx. reflexivity.
  - f_equal. induction vals as [|x xs IHx]; [reflexivity|]. cbn [each_list]. rewrite <- IHx. reflexivity.
Qed.
Lemma each_good b vs : forallb is_plain vs = true ->
  forall xs, each_list b vs = Ret xs -> forallb (fun t => negb (bad t)) xs = true.
Proof.
  induction vs as [|v vs IHvs]; intros Hp xs E; [inversion E; reflexivity|].
  cbn [each_list] in E. cbn in Hp. apply andb_true_iff in Hp. destruct Hp as [Hv Hvs].
  destruct v as [vl vo vr vb vf]. cbn [e_left] in E. destruct vo; try discriminate. destruct vr; try (destruct vl; discriminate).
  cbn in Hv.
  destruct (str_v o2 (if b then 2 else 1) vl) as [a0|] eqn:E0; cbn [bind] in E; [|discriminate].
  destruct (each_list b vs) as [b0|] eqn:E1; cbn [bind] in E; [|discriminate].
  inversion E; subst. cbn. rewrite (IHvs Hvs b0 eq_refl).
  assert (Hg : bad a0 = false). { apply (leaf_value_good (if b then 2 else 1) vl Hv); [destruct b; discriminate|exact E0]. }
  rewrite Hg. reflexivity.
Qed.


Lemma str_good : forall n e b, esize e <= n -> wf true e = true -> good (str_e o2 b e).
Proof.
  induction n as [|n IH]; intros e b Hs W; [destruct e; cbn in Hs; lia|].
  assert (HV : forall x how, esize x <= n -> wf true x = true -> good (str_v o2 how (VExp x))).
  { intros x how Hx Wx. cbn [str_v]. apply IH; auto. }
  destruct e as [l op r bo fu]. cbn in Hs.
  destruct op; cbn [wf] in W; try discriminate.
  - (* And *) destruct l as [| | | | | | a | |]; try discriminate; destruct r as [| | | | | | c | |]; try discriminate.
    cbn in Hs. apply andb_true_iff in W. destruct W as [Wa Wc]. cbn [str_e].
    apply good_bind; [apply HV; auto; lia|intros x Hx]. apply good_bind; [apply HV; auto; lia|intros y Hy].
    destruct b; good_cats.
  - (* Or *) destruct l as [| | | | | | a | |]; try discriminate; destruct r as [| | | | | | c | |]; try discriminate.
    cbn in Hs. apply andb_true_iff in W. destruct W as [Wa Wc]. cbn [str_e].
    apply good_bind; [apply HV; auto; lia|intros x Hx]. apply good_bind; [apply HV; auto; lia|intros y Hy].
    destruct b; good_cats.
  - (* Equals *) destruct l as [| | | | | | a | |]; try discriminate; destruct r as [| | | | | | c | |]; try discriminate.
    cbn in Hs. apply andb_true_iff in W. destruct W as [W _]. apply andb_true_iff in W. destruct W as [Wa Wc]. cbn [str_e].
    apply good_bind; [apply HV; [lia|apply is_leaf_wf; auto]|intros x Hx]. apply good_bind; [apply HV; auto; lia|intros y Hy].
    good_cats.
  - (* Like *) destruct l as [| | | | | | a | |]; try discriminate; destruct r as [| | | | | | c | |]; try discriminate.
    cbn in Hs. apply andb_true_iff in W. destruct W as [Wa Wc]. cbn [str_e].
    apply good_bind; [apply HV; [lia|apply is_leaf_wf; auto]|intros x Hx].
    apply good_bind; [apply HV; [lia|apply is_leaf_wf; destruct c as [cl co cr cb cf]; destruct co, cl, cr; cbn in Wc |- *; try discriminate; reflexivity]|intros y Hy].
    destruct b; good_cats.
  - (* Not *) destruct l as [| | | | | | a | |]; try discriminate; destruct r; try discriminate. cbn in Hs. cbn [str_e].
    apply good_bind; [apply HV; auto; lia|intros x Hx]. good_cats.
  - (* Range *) destruct l as [| | | | | | a | |]; try discriminate; destruct r as [| | | | | | | |mn mx incl]; try discriminate.
    destruct mn as [| | | | | | x1 | |]; try discriminate; destruct mx as [| | | | | | x2 | |]; try discriminate.
    cbn in Hs. apply andb_true_iff in W. destruct W as [W W2]. apply andb_true_iff in W. destruct W as [Wa W1]. cbn [str_e].
    apply good_bind; [apply HV; [lia|apply is_leaf_wf; auto]|intros x Hx].
    apply good_bind; [apply HV; [lia|apply is_leaf_wf; auto]|intros y Hy].
    apply good_bind; [apply HV; [lia|apply is_leaf_wf; auto]|intros z Hz].
    destruct incl; good_cats.
  - (* Must *) destruct l as [| | | | | | a | |]; try discriminate; destruct r; try discriminate. cbn in Hs. cbn [str_e].
    apply good_bind; [apply HV; auto; lia|intros x Hx]. destruct b; good_cats.
  - (* MustNot *) destruct l as [| | | | | | a | |]; try discriminate; destruct r; try discriminate. cbn in Hs. cbn [str_e].
    apply good_bind; [apply HV; auto; lia|intros x Hx]. destruct b; good_cats.
  - (* Boost *) destruct l as [| | | | | | a | |]; try discriminate; destruct r; try discriminate. cbn in Hs. cbn [str_e].
    apply good_bind; [apply HV; auto; lia|intros x Hx]. destruct b; destruct (f_gt1 o2 bo); good_cats.
  - (* Fuzzy *) destruct l as [| | | | | | a | |]; try discriminate; destruct r; try discriminate. cbn in Hs. cbn [str_e].
    apply good_bind; [apply HV; auto; lia|intros x Hx]. destruct b; destruct (1 <? fu)%Z; good_cats.
  - (* Literal *) cbn in W. cbn [str_e]. destruct r; try (destruct l; discriminate).
    destruct l; cbn in W; try discriminate; destruct b; cbn;
      try (apply good_ret; reflexivity);
      match goal with |- context [contains_char ?c ?x] => destruct (contains_char c x) end; apply good_ret; reflexivity.
  - (* Wild *) cbn in W. destruct l; try discriminate. destruct r; try discriminate. cbn [str_e].
    destruct b; cbn; try (apply good_ret; reflexivity);
      match goal with |- context [contains_char ?c ?x] => destruct (contains_char c x) end; apply good_ret; reflexivity.
  - (* Regexp *) cbn in W. destruct l; try discriminate. destruct r; try discriminate. cbn [str_e].
    destruct b; cbn; try (apply good_ret; reflexivity);
      match goal with |- context [contains_char ?c ?x] => destruct (contains_char c x) end; apply good_ret; reflexivity.
  - (* Greater *) destruct l as [| | | | | | a | |]; try discriminate; destruct r as [| | | | | | c | |]; try discriminate.
    cbn in Hs. apply andb_true_iff in W. destruct W as [W _]. apply andb_true_iff in W. destruct W as [Wa Wc]. cbn [str_e].
    apply good_bind; [apply HV; [lia|apply is_leaf_wf; auto]|intros x Hx]. apply good_bind; [apply HV; auto; lia|intros y Hy].
    destruct b; good_cats.
  - (* Less *) destruct l as [| | | | | | a | |]; try discriminate; destruct r as [| | | | | | c | |]; try discriminate.
    cbn in Hs. apply andb_true_iff in W. destruct W as [W _]. apply andb_true_iff in W. destruct W as [Wa Wc]. cbn [str_e].
    apply good_bind; [apply HV; [lia|apply is_leaf_wf; auto]|intros x Hx]. apply good_bind; [apply HV; auto; lia|intros y Hy].
    destruct b; good_cats.
  - (* GreaterEq *) destruct l as [| | | | | | a | |]; try discriminate; destruct r as [| | | | | | c | |]; try discriminate.
    cbn in Hs. apply andb_true_iff in W. destruct W as [W _]. apply andb_true_iff in W. destruct W as [Wa Wc]. cbn [str_e].
    apply good_bind; [apply HV; [lia|apply is_leaf_wf; auto]|intros x Hx]. apply good_bind; [apply HV; auto; lia|intros y Hy].
    destruct b; good_cats.
  - (* LessEq *) destruct l as [| | | | | | a | |]; try discriminate; destruct r as [| | | | | | c | |]; try discriminate.
    cbn in Hs. apply andb_true_iff in W. destruct W as [W _]. apply andb_true_iff in W. destruct W as [Wa Wc]. cbn [str_e].
    apply good_bind; [apply HV; [lia|apply is_leaf_wf; auto]|intros x Hx]. apply good_bind; [apply HV; auto; lia|intros y Hy].
    destruct b; good_cats.
  - (* In: the list node is printed through renderList with %v on each value *)
    destruct l as [| | | | | | a | |]; try discriminate; destruct r as [| | | | | | c | |]; try discriminate.
    cbn [str_e].
    apply good_bind; [apply HV; [cbn in Hs; lia|apply is_leaf_wf; destruct c as [[] [] [] ? ?]; try discriminate; apply andb_true_iff in W; destruct W as [W _]; apply andb_true_iff in W; apply W]|intros x Hx].
    apply good_bind; [|intros y Hy; destruct b; good_cats].
    assert (G : good (str_e o2 (vb (if b then 2 else 0)) c)); [|exact G].
    destruct c as [cl co cr cb cf]. destruct cl as [| | | | | | |lits|]; try discriminate. destruct co; try discriminate. destruct cr; try discriminate.
    apply andb_true_iff in W. destruct W as [_ Wp].
    rewrite str_list_eq. destruct b; cbn [vb].
    all: intros t Et; match type of Et with bind (each_list ?bb ?ll) _ = _ => destruct (each_list bb ll) as [xs|] eqn:EX; cbn [bind] in Et; [|discriminate]; pose proof (each_good bb ll Wp xs EX) as HL end;
      inversion Et; subst; cbn [bad cat cats ok]; rewrite (bad_joinf ", "%string xs HL); reflexivity.
Qed.

End T.
