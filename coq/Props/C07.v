(* C07 — Juxtaposition means AND, with AND's precedence. *)
Require Import Parser Build.
Require Import ParserJuxt ParserJuxtParse PrintedText Api.
Require Lex LexWs.
Require LexWsG.
From Coq Require Import List String.
Import ListNotations.

(* For every oracle, default field, token lists pre and post and term tokens t1 t2: the run on  pre t1 t2 post  and the run
   on  pre t1 AND t2 post  end in the same final result (the same tree accepted, or both rejected). `final o df c r` says the
   parser loop started in c stops with r; by C01 it always stops. This covers every context at once. *)
Theorem C07_juxtaposition_is_and : forall (o : oracle) (df : string) (pre : list token) (t1 t2 : token) (post : list token) (r : res),
  term_tok t1 = true -> term_tok t2 = true ->
  final o df {| rs := []; ns := [start]; toks := pre ++ t1 :: t2 :: post; pend := None |} r ->
  final o df {| rs := []; ns := [start]; toks := pre ++ t1 :: and_tok :: t2 :: post; pend := None |} r.
Proof. exact C07_juxt. Qed.

(* the same for an arbitrary parser state whose stack top is an expression (what "adjacent operands" means to the parser) *)
Theorem C07_local_step : forall (o : oracle) (df : string) (x : expr) (r : list item) (nn : list token) (t2 : token) (post : list token) (res1 : res),
  term_tok t2 = true ->
  final o df {| rs := IExp x :: r; ns := nn; toks := t2 :: post; pend := None |} res1 ->
  final o df {| rs := IExp x :: r; ns := nn; toks := and_tok :: t2 :: post; pend := None |} res1.
Proof. exact C07_local. Qed.

(* the same as an equation between results of the whole token-level Parse (parser loop within its fuel, then Validate) ... *)
Theorem C07_same_parse : forall (o : oracle) (df : string) (pre : list token) (t1 t2 : token) (post : list token),
  term_tok t1 = true -> term_tok t2 = true ->
  parse_toks o df (pre ++ t1 :: t2 :: post) = parse_toks o df (pre ++ t1 :: and_tok :: t2 :: post).
Proof. exact juxt_same_parse. Qed.

(* ... and between results of Parse on query TEXT (tokens of any bytes that lex to themselves when a blank follows, single blanks between them):
   `pre t1 t2 post` and `pre t1 AND t2 post` parse alike - same tree, or both fail. Oracle fact: whitespace runes are not alphanumeric *)
Theorem C07_same_parse_of_text : forall (o : oracle) (cl : Lex.classes), (forall r, Lex.is_space r = true -> Lex.is_alnum cl r = false) ->
  forall (df : string) (pre : list token) (t1 t2 : token) (post : list token), term_tok t1 = true -> term_tok t2 = true ->
  Forall (LexWsG.lexes_clean cl) (map ltok (pre ++ t1 :: t2 :: post)) -> LexWsG.lexes_clean cl (ltok and_tok) ->
  Api.parse o cl df (text_of (pre ++ t1 :: t2 :: post)) = Api.parse o cl df (text_of (pre ++ t1 :: and_tok :: t2 :: post)).
Proof. exact juxt_same_text. Qed.

Print Assumptions C07_juxtaposition_is_and.
Print Assumptions C07_same_parse.
Print Assumptions C07_same_parse_of_text.
Print Assumptions C07_local_step.

(* the property's own examples, on the model: instances of the theorems above *)
Require LexWs SqlQueryText Api.
Example c07_examples_of_the_property_text :
  let P := fun s : String.string => Api.parse SqlQueryText.o_ex LexWs.cl_ascii ""%string s in
  (exists e, P "NOT a:b c:d"%string = PTree e) /\
  P "NOT a:b c:d"%string = P "NOT a:b AND c:d"%string /\ P "NOT a:b c:d"%string = P "(NOT a:b) AND c:d"%string /\
  P "NOT a:b c:d"%string <> P "NOT (a:b AND c:d)"%string /\
  P "-a:b c:d"%string = P "(-a:b) AND c:d"%string /\
  P "a:b c:d e:f"%string = P "a:b AND c:d AND e:f"%string /\ P "a:b c:d e:f"%string = P "(a:b AND c:d) AND e:f"%string.
Proof. vm_compute. repeat split; try reflexivity; try discriminate. eexists; reflexivity. Qed.
