#!/bin/sh
# builds the OCaml driver from the extracted model (coq/model.ml) and ocaml/*.ml into build/ocaml
set -e
mkdir -p /verif/build/ocaml && cd /verif/build/ocaml
cp /verif/coq/model.ml /verif/coq/model.mli /verif/ocaml/common.ml /verif/ocaml/checks.ml /verif/ocaml/driver.ml .
ocamlfind ocamlopt -package unix -linkpkg -w -a model.mli model.ml common.ml checks.ml driver.ml -o driver
