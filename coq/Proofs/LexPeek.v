(* C16: Peek returns exactly the token the next read returns; after EOF or an error the stream reports EOF forever *)
Require Import Lex.
From Coq Require Import List Ascii String NArith Bool Arith Lia.
Import ListNotations.

Section P.
Variable cl : classes.

(* states reachable from the initial one by reads *)
Inductive reachable (s : bytes) : lstate -> Prop :=
| r_init : reachable s (linit s)
| r_next : forall st, reachable s st -> reachable s (snd (lnext cl st)).

Lemma next_token_nil : next_token cl [] = (eof_tok, []).
Proof. reflexivity. Qed.

Lemma next_token_eof_rest : forall s t r, next_token cl s = (t, r) -> is_eof t = true -> r = [].
Proof.
  intros s t r H E. unfold next_token in H.
  destruct (decode_rune (skip_space s)) as [[rn w]|] eqn:D; [|inversion H; reflexivity].
  (* every other branch returns a token whose type is not EOF, or the error token with an empty rest *)
  assert (F : forall x t' r', (match x with Tok t0 rest0 => (t0, rest0) | LErr => (err_tok, []) end) = (t', r') ->
              (forall t0 r0, x = Tok t0 r0 -> is_eof t0 = false) -> is_eof t' = true -> r' = []).
  { intros x t' r' Hx Hn Ee. destruct x as [t0 r0|]; inversion Hx; subst; [rewrite (Hn _ _ eq_refl) in Ee; discriminate|reflexivity]. }
  assert (W : forall f s0 a t0 r0, lex_word cl f s0 a = Tok t0 r0 -> is_eof t0 = false).
  { induction f as [|f IHf]; intros s0 a t0 r0 Hw; [discriminate|]. cbn [lex_word] in Hw.
    destruct (decode_rune s0) as [[r1 w1]|]; [|inversion Hw; unfold is_eof, word_type; cbn;
      repeat match goal with |- context [if ?b then _ else _] => destruct b end; reflexivity].
    destruct (is_alnum cl r1 || is_wildcard r1 || (r1 =? 46)%N || (r1 =? 45)%N).
    - destruct (take_onto w1 s0 a) as [s' a']. eapply IHf; eassumption.
    - destruct (is_escape r1).
      + destruct (take_onto w1 s0 a) as [s1 a1]. destruct (decode_rune s1) as [[r2 w2]|].
        * destruct (take_onto w2 s1 a1) as [s2 a2]. eapply IHf; eassumption.
        * eapply IHf; eassumption.
      + inversion Hw; unfold is_eof, word_type; cbn;
        repeat match goal with |- context [if ?b then _ else _] => destruct b end; reflexivity. }
  assert (P : forall f o s0 a t0 r0, lex_phrase cl f o s0 a = Tok t0 r0 -> is_eof t0 = false).
  { induction f as [|f IHf]; intros o s0 a t0 r0 Hw; [discriminate|]. cbn [lex_phrase] in Hw.
    destruct (decode_rune s0) as [[r1 w1]|]; [|discriminate]. destruct (take_onto w1 s0 a) as [s' a'].
    repeat match type of Hw with (if ?b then _ else _) = _ => destruct b end;
      try (eapply IHf; eassumption); inversion Hw; reflexivity. }
  assert (R : forall f o s0 a t0 r0, lex_regexp cl f o s0 a = Tok t0 r0 -> is_eof t0 = false).
  { induction f as [|f IHf]; intros o s0 a t0 r0 Hw; [discriminate|]. cbn [lex_regexp] in Hw.
    destruct (decode_rune s0) as [[r1 w1]|]; [|discriminate]. destruct (take_onto w1 s0 a) as [s' a'].
    destruct (is_alnum cl r1 || is_wildcard r1); [eapply IHf; eassumption|].
    destruct (is_escape r1).
    - destruct (decode_rune s') as [[r2 w2]|]; [destruct (take_onto w2 s' a') as [s2 a2]|]; eapply IHf; eassumption.
    - repeat match type of Hw with (if ?b then _ else _) = _ => destruct b end;
        try (eapply IHf; eassumption); inversion Hw; reflexivity. }
  destruct (is_alnum cl rn || is_wildcard rn || is_escape rn).
  { eapply F; [exact H| intros; eapply W; eassumption | exact E]. }
  destruct (symbol rn) as [ty|] eqn:S.
  { destruct (take_onto w (skip_space s) []) as [s' acc]. inversion H; subst. exfalso.
    unfold symbol in S. unfold is_eof in E. cbn in E.
    assert (In (rn, ty) symbols).
    { clear -S. revert S. generalize symbols. induction l as [|[k v] l IH]; cbn; [discriminate|].
      destruct (rn =? k)%N eqn:K; [intros X; inversion X; apply N.eqb_eq in K; subst; left; reflexivity|intros X; right; auto]. }
    cbn in H0. repeat (destruct H0 as [H0|H0]; [inversion H0; subst; discriminate|]). contradiction. }
  destruct (rn =? 45)%N.
  { destruct (take_onto w (skip_space s) []) as [s' acc]. destruct (decode_rune s') as [[r2 w2]|].
    - destruct (is_digit cl r2); [eapply F; [exact H| intros; eapply W; eassumption | exact E]|inversion H; subst; discriminate].
    - inversion H; subst; discriminate. }
  destruct ((rn =? 34)%N || (rn =? 39)%N).
  { destruct (take_onto w (skip_space s) []) as [s' acc]. eapply F; [exact H| intros; eapply P; eassumption | exact E]. }
  destruct (rn =? 47)%N.
  { destruct (take_onto w (skip_space s) []) as [s' acc]. eapply F; [exact H| intros; eapply R; eassumption | exact E]. }
  inversion H; reflexivity.
Qed.

(* invariant: once EOF was returned the input is used up *)
Lemma reachable_inv s st : reachable s st -> last_eof st = true -> rest st = [].
Proof.
  intros R. induction R as [|st R IH]; [discriminate|].
  unfold lnext. destruct (next_token cl (rest st)) as [t r] eqn:N. cbn. intros E.
  exact (next_token_eof_rest _ _ _ N E).
Qed.

Theorem peek_is_next s st : reachable s st -> lpeek cl st = fst (lnext cl st).
Proof.
  intros R. unfold lpeek, lnext. destruct (last_eof st) eqn:E.
  - rewrite (reachable_inv s st R E), next_token_nil. reflexivity.
  - destruct (next_token cl (rest st)); reflexivity.
Qed.

(* after the end of input or a lexical error every further read is EOF *)
Definition ended (t : token) : bool := match typ t with TEOF | TErr => true | _ => false end.

Lemma next_token_err_rest : forall s t r, next_token cl s = (t, r) -> typ t = TErr -> r = [].
Proof.
  intros s t r H E.
  (* an error token is produced only together with the empty rest, or by a sub-lexer result LErr *)
  unfold next_token in H.
  destruct (decode_rune (skip_space s)) as [[rn w]|]; [|inversion H; reflexivity].
  assert (W : forall f s0 a t0 r0, lex_word cl f s0 a = Tok t0 r0 -> typ t0 <> TErr).
  { induction f as [|f IHf]; intros s0 a t0 r0 Hw; [discriminate|]. cbn [lex_word] in Hw.
    destruct (decode_rune s0) as [[r1 w1]|]; [|inversion Hw; unfold word_type; cbn;
      repeat match goal with |- context [if ?b then _ else _] => destruct b end; discriminate].
    destruct (is_alnum cl r1 || is_wildcard r1 || (r1 =? 46)%N || (r1 =? 45)%N).
    - destruct (take_onto w1 s0 a) as [s' a']. eapply IHf; eassumption.
    - destruct (is_escape r1).
      + destruct (take_onto w1 s0 a) as [s1 a1]. destruct (decode_rune s1) as [[r2 w2]|].
        * destruct (take_onto w2 s1 a1) as [s2 a2]. eapply IHf; eassumption.
        * eapply IHf; eassumption.
      + inversion Hw; unfold word_type; cbn;
        repeat match goal with |- context [if ?b then _ else _] => destruct b end; discriminate. }
  assert (P : forall f o s0 a t0 r0, lex_phrase cl f o s0 a = Tok t0 r0 -> typ t0 <> TErr).
  { induction f as [|f IHf]; intros o s0 a t0 r0 Hw; [discriminate|]. cbn [lex_phrase] in Hw.
    destruct (decode_rune s0) as [[r1 w1]|]; [|discriminate]. destruct (take_onto w1 s0 a) as [s' a'].
    repeat match type of Hw with (if ?b then _ else _) = _ => destruct b end;
      try (eapply IHf; eassumption); inversion Hw; discriminate. }
  assert (R : forall f o s0 a t0 r0, lex_regexp cl f o s0 a = Tok t0 r0 -> typ t0 <> TErr).
  { induction f as [|f IHf]; intros o s0 a t0 r0 Hw; [discriminate|]. cbn [lex_regexp] in Hw.
    destruct (decode_rune s0) as [[r1 w1]|]; [|discriminate]. destruct (take_onto w1 s0 a) as [s' a'].
    destruct (is_alnum cl r1 || is_wildcard r1); [eapply IHf; eassumption|].
    destruct (is_escape r1).
    - destruct (decode_rune s') as [[r2 w2]|]; [destruct (take_onto w2 s' a') as [s2 a2]|]; eapply IHf; eassumption.
    - repeat match type of Hw with (if ?b then _ else _) = _ => destruct b end;
        try (eapply IHf; eassumption); inversion Hw; discriminate. }
  assert (F : forall x t' r', (match x with Tok t0 rest0 => (t0, rest0) | LErr => (err_tok, []) end) = (t', r') ->
              (forall t0 r0, x = Tok t0 r0 -> typ t0 <> TErr) -> typ t' = TErr -> r' = []).
  { intros x t' r' Hx Hn Ee. destruct x as [t0 r0|]; inversion Hx; subst; [exfalso; exact (Hn _ _ eq_refl Ee)|reflexivity]. }
  destruct (is_alnum cl rn || is_wildcard rn || is_escape rn).
  { eapply F; [exact H| intros; eapply W; eassumption | exact E]. }
  destruct (symbol rn) as [ty|] eqn:S.
  { destruct (take_onto w (skip_space s) []) as [s' acc]. inversion H; subst. exfalso. cbn in E. subst ty.
    unfold symbol in S.
    assert (In (rn, TErr) symbols).
    { clear -S. revert S. generalize symbols. induction l as [|[k v] l IH]; cbn; [discriminate|].
      destruct (rn =? k)%N eqn:K; [intros X; inversion X; apply N.eqb_eq in K; subst; left; reflexivity|intros X; right; auto]. }
    cbn in H0. repeat (destruct H0 as [H0|H0]; [inversion H0|]). contradiction. }
  destruct (rn =? 45)%N.
  { destruct (take_onto w (skip_space s) []) as [s' acc]. destruct (decode_rune s') as [[r2 w2]|].
    - destruct (is_digit cl r2); [eapply F; [exact H| intros; eapply W; eassumption | exact E]|inversion H; subst; discriminate].
    - inversion H; subst; discriminate. }
  destruct ((rn =? 34)%N || (rn =? 39)%N).
  { destruct (take_onto w (skip_space s) []) as [s' acc]. eapply F; [exact H| intros; eapply P; eassumption | exact E]. }
  destruct (rn =? 47)%N.
  { destruct (take_onto w (skip_space s) []) as [s' acc]. eapply F; [exact H| intros; eapply R; eassumption | exact E]. }
  inversion H; reflexivity.
Qed.

(* the state after k further reads *)
Fixpoint reads (k : nat) (st : lstate) : lstate := match k with 0 => st | S k' => snd (lnext cl (reads k' st)) end.

Theorem eof_forever st : ended (fst (lnext cl st)) = true ->
  forall k, fst (lnext cl (reads k (snd (lnext cl st)))) = eof_tok.
Proof.
  intros E.
  assert (R0 : rest (snd (lnext cl st)) = []).
  { unfold lnext in *. destruct (next_token cl (rest st)) as [t r] eqn:N. cbn in *. unfold ended in E.
    destruct (typ t) eqn:T; try discriminate.
    - exact (next_token_err_rest _ _ _ N T).
    - apply (next_token_eof_rest _ _ _ N). unfold is_eof. rewrite T. reflexivity. }
  assert (Lnil : forall x, rest x = [] -> lnext cl x = (eof_tok, {| rest := []; last_eof := true |})).
  { intros x Hx. unfold lnext. rewrite Hx, next_token_nil. reflexivity. }
  assert (Hk : forall k, rest (reads k (snd (lnext cl st))) = []).
  { induction k as [|k IH]; [exact R0|]. cbn [reads]. rewrite (Lnil _ IH). reflexivity. }
  intros k. rewrite (Lnil _ (Hk k)). reflexivity.
Qed.

End P.
