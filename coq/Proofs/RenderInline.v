(* Scratch: C01 clause 3 for the inline SQL renderer — Render never reaches a panic site on trees
   of the shape the parser returns *)
Require Import Parser ParserShape Render RenderTotal RenderWfOk.
From Coq Require Import List Ascii String ZArith Bool Lia Arith.
Import ListNotations.

Section R.
Variable o2 : oracle2.

Lemma length_app_str a b : String.length (a ++ b) = String.length a + String.length b.
Proof. induction a as [|c a IH]; cbn; auto. Qed.

Lemma bind_eq {A B} (x : out A) a (k : A -> out B) : x = Ret a -> is_ret (k a) -> is_ret (bind x k).
Proof. intros -> H. exact H. Qed.

Lemma rang_core_ret left right K :
  2 <= String.length right -> (forall i a b, is_ret (K i a b)) -> is_ret (fn_rang_core left right K).
Proof.
  intros H HK. unfold fn_rang_core.
  destruct (String.length right) as [|[|n]]; try lia.
  destruct (split_comma _ _) as [|a [|b [|c l]]]; try (eexists; reflexivity). apply HK.
Qed.

Lemma fn_rang_ret left right : 2 <= String.length right -> is_ret (fn_rang o2 left right).
Proof. intros H. apply rang_core_ret; auto. intros; eexists; reflexivity. Qed.

Lemma bound_text_len incl smin smax :
  2 <= String.length (if incl : bool then "[" ++ smin ++ ", " ++ smax ++ "]" else "(" ++ smin ++ ", " ++ smax ++ ")")%string.
Proof. destruct incl; cbn [String.append String.length]; rewrite !length_app_str; cbn; lia. Qed.

(* the loop of serialize over a value list, as a named function *)
Fixpoint ser_list (l : list expr) (acc : list string) : out sres :=
  match l with
  | [] => Ret (join ", " (rev acc), None)
  | x :: rest => bind (render o2 x) (fun s => match s with (s', Some er) => Ret (s', Some er) | (s', None) => ser_list rest (s' :: acc) end)
  end.
Lemma ser_list_eq l : serialize o2 (VList l) = ser_list l [].
Proof. destruct l; reflexivity. Qed.

Lemma render_total_sz : forall n,
  (forall e, esize e <= n -> eok e = true -> is_ret (render o2 e)) /\
  (forall v, vsize v <= n -> vok v = true -> is_ret (serialize o2 v) /\
     (forall mn mx incl rt, v = VBound mn mx incl -> serialize o2 v = Ret (rt, None) -> 2 <= String.length rt)).
Proof.
  induction n as [|n [IHe IHv]].
  { split.
    - intros e Hs. destruct e; cbn in Hs; lia.
    - intros v Hs Hv. destruct v; cbn in Hs; try lia; try (split; [eexists; reflexivity|intros; discriminate]). destruct e; cbn in Hs; lia. }
  assert (HE : forall e, esize e <= S n -> eok e = true -> is_ret (render o2 e)).
  { intros e Hs Hk. destruct e as [l op r bo fu]. cbn in Hs. cbn [eok] in Hk.
    apply andb_true_iff in Hk; destruct Hk as [Hk HB]. apply andb_true_iff in Hk; destruct Hk as [Hk HA]. apply andb_true_iff in Hk. destruct Hk as [Hl Hr].
    cbn [render].
    apply bind_ret; [apply IHv; auto; lia|intros [lf [er|]]; [eexists; reflexivity|]].
    destruct (IHv r ltac:(lia) Hr) as [[[rt er] Er] Hb]. apply (bind_eq _ _ _ Er).
    destruct er as [er|]; [eexists; reflexivity|].
    destruct op; cbn [pg_fn]; try (eexists; reflexivity).
    (* Range *)
    destruct r as [| | | | | | | |mn mx incl]; try discriminate.
    cbn [no_wrap_op negb andb wrap_if].
    apply fn_rang_ret. eapply Hb; eauto. }
  split; [exact HE|].
  intros v Hs Hv. destruct v as [| | | | | |e|l|v1 v2 b]; try (split; [eexists; reflexivity|intros; discriminate]).
  - split; [cbn in Hs; cbn [serialize]; apply HE; auto|intros; discriminate].
  - (* VList *) split; [|intros; discriminate].
    rewrite ser_list_eq. cbn in Hv, Hs. generalize (@nil string). revert Hv Hs.
    induction l as [|x xs IHx]; intros Hv Hs acc; [eexists; reflexivity|].
    apply andb_true_iff in Hv. destruct Hv as [Hx Hxs]. cbn [ser_list].
    apply bind_ret; [apply IHe; auto; lia|intros [s' [er|]]; [eexists; reflexivity|]]. apply IHx; auto; lia.
  - (* VBound *) cbn in Hv, Hs. apply andb_true_iff in Hv. destruct Hv as [H1 H2].
    destruct (IHv v1 ltac:(lia) H1) as [[[s1 e1] E1] _]. destruct (IHv v2 ltac:(lia) H2) as [[[s2 e2] E2] _].
    assert (EQ : serialize o2 (VBound v1 v2 b) =
       match e1 with Some er => Ret (""%string, Some er) | None =>
         match e2 with Some er => Ret (""%string, Some er) | None =>
           Ret ((if b then "[" ++ s1 ++ ", " ++ s2 ++ "]" else "(" ++ s1 ++ ", " ++ s2 ++ ")")%string, None) end end).
    { change (serialize o2 (VBound v1 v2 b)) with
        (bind (serialize o2 v1) (fun a => match a with (_, Some er) => Ret (""%string, Some er) | (smin, None) =>
           bind (serialize o2 v2) (fun b0 => match b0 with (_, Some er) => Ret (""%string, Some er) | (smax, None) =>
             Ret ((if b then "[" ++ smin ++ ", " ++ smax ++ "]" else "(" ++ smin ++ ", " ++ smax ++ ")")%string, None) end) end)).
      rewrite E1. cbn [bind]. destruct e1; [reflexivity|]. rewrite E2. cbn [bind]. destruct e2; reflexivity. }
    rewrite EQ. destruct e1; [split; [eexists; reflexivity|intros ? ? ? ? _ H; discriminate H]|].
    destruct e2; [split; [eexists; reflexivity|intros ? ? ? ? _ H; discriminate H]|].
    split; [eexists; reflexivity|]. intros mn mx incl rt Hq H. inversion H; subst. apply bound_text_len.
Qed.

Theorem render_total e s : wf s e = true -> is_ret (render o2 e).
Proof. intros W. apply (proj1 (render_total_sz (esize e)) e (le_n _)). exact (wf_eok _ e s (le_n _) W). Qed.
End R.
Print Assumptions render_total.
