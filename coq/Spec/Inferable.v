(* C12 specification: "each leaf has the kind the decoder infers from its text", as an executable predicate on trees of the
   parser's output shape (it also checks that shape: default boost / fuzzy fields outside BOOST / FUZZY nodes, columns only
   as fields). Proofs/JsonRoundTripB.v shows it implies the premise of the round-trip theorem. *)
Require Import Parser Render Decode.
From Coq Require Import List Ascii String ZArith Bool.
Import ListNotations.

Section I.
Variable o : Parser.oracle.
Variable o2 : oracle2.

Definition z_opt_eqb (a : option Z) (b : Z) : bool := match a with Some x => (x =? b)%Z | None => false end.
Definition float_ok_b (f : Z) : bool :=
  match json_num o2 f with
  | Some t => (match atoi t with None => true | Some _ => false end) && z_opt_eqb (parse_float o t) f && negb (is_nan_or_inf o f)
  | None => false
  end.
Definition power_ok_b (f : Z) : bool :=
  match json_num o2 f with Some t => z_opt_eqb (parse_float o t) f && negb (is_nan_or_inf o f) | None => false end.
Definition int_ok_b (z : Z) : bool := ((-9223372036854775808 <=? z) && (z <=? 9223372036854775807))%Z.
Definition dflt (b fz : Z) : bool := ((b =? one_bits) && (fz =? 1))%Z.

Definition leaf_rt_b (e : expr) : bool :=
  match e with
  | E (VStr s) op VNil b fz => op_eqb (e_op (literal_to_expr (VStr s))) op && dflt b fz
  | E (VInt z) Literal VNil b fz => int_ok_b z && dflt b fz
  | E (VFloat f) Literal VNil b fz => float_ok_b f && dflt b fz
  | _ => false
  end.
Definition field_rt_b (e : expr) : bool :=
  match e with
  | E (VCol _) Literal VNil b fz => dflt b fz
  | E (VInt z) Literal VNil b fz => int_ok_b z && dflt b fz
  | E (VFloat f) Literal VNil b fz => float_ok_b f && dflt b fz
  | _ => false
  end.

Fixpoint ki_b (e : expr) {struct e} : bool :=
  match e with
  | E l op r b fz =>
    match op with
    | Literal | Wild | Regexp => leaf_rt_b e
    | And | Or => match l, r with VExp a, VExp c => ki_b a && ki_b c && dflt b fz | _, _ => false end
    | Not | Must | MustNot => match l, r with VExp a, VNil => ki_b a && dflt b fz | _, _ => false end
    | Boost => match l, r with VExp a, VNil => ki_b a && ((b =? one_bits)%Z || power_ok_b b) && (fz =? 1)%Z | _, _ => false end
    | Fuzzy => match l, r with VExp a, VNil => ki_b a && (b =? one_bits)%Z && int_ok_b fz | _, _ => false end
    | Equals | Like | Greater | Less | GreaterEq | LessEq =>
        match l, r with VExp f, VExp v => field_rt_b f && ki_b v && dflt b fz | _, _ => false end
    | Tables.In =>
        match l, r with
        | VExp f, VExp (E (VList lits) Tables.List VNil b' fz') => field_rt_b f && forallb leaf_rt_b lits && dflt b fz && dflt b' fz'
        | _, _ => false end
    | Range =>
        match l, r with
        | VExp f, VBound (VExp x) (VExp y) _ => field_rt_b f && leaf_rt_b x && leaf_rt_b y && dflt b fz
        | _, _ => false end
    | Undefined | Tables.List => false
    end
  end.
End I.
