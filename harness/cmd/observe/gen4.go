package main

import (
	"fmt"
	"strings"
)

// ---------------------------------------------------------------------------------------------------
// pairs: every construct of the query language directly under every other construct, in every operand position - written as
// text templates, so that also the combinations the grammar does not list (a group where a single value is expected, a prefix
// operator on a range bound, a quoted phrase under a suffix operator) are present. Valid or not is for the two
// implementations to agree on.
// ---------------------------------------------------------------------------------------------------

var pairChildren = []string{
	"x", "5", "-3", "2.5", `"q r"`, `"w?"`, `"/r/"`, "w*", "?", "*", "/re/", `x\ y`, "true", "null",
	"k:v", "k:5", `k:"q r"`, "k:w*", "k:/re/", "k=v", "k:>5", "k:>=v", "k:<5", "k:<=5", "k:[1 TO 5]", "k:{a TO *}", "k:[* TO 5}", "k:(p OR q)", "k:(p OR 5 OR \"s t\")", "k:(p)", "k:(p AND q)",
	"p AND q", "p OR q", "p q", "NOT p", "+p", "-p", "p^2", "p~2", "p~", "p^", "(p)", "(p OR q)", "(k:v)", "(NOT p)", "p OR q AND r", "NOT p AND q", "+p -q",
}

var pairParents = []string{
	"%s", "(%s)", "((%s))", "%s AND z", "z AND %s", "%s OR z", "z OR %s", "%s z", "z %s", "NOT %s", "NOT (%s)", "+%s", "+(%s)", "-%s", "-(%s)", "%s^2", "(%s)^2", "%s~2", "(%s)~", "%s^", "%s~",
	"f:%s", "f:(%s)", "f=%s", "f=(%s)", "f:>%s", "f:>(%s)", "f:>=%s", "f:>=(%s)", "f:<%s", "f:<(%s)", "f:<=(%s)", "f:[%s TO 9]", "f:[1 TO %s]", "f:{%s TO *}", "f:[(%s) TO 9]", "f:(%s OR y)", "f:(y OR %s)",
	"f:(y OR (%s))", "%s:v", "(%s):v", "%s:[1 TO 2]", "a:b AND NOT %s", "(a:b OR %s) AND c", "f:(%s) g:(%s)", "%s %s", "%s OR %s", "NOT %s AND NOT %s",
}

func genPairs() {
	for _, p := range pairParents {
		for _, c := range pairChildren {
			q := fmt.Sprintf(p, c)
			if n := countVerb(p); n == 2 {
				q = fmt.Sprintf(p, c, c)
			}
			emitQ(q, "", "src=pairs")
			emitQ(q, "d", "src=pairs")
		}
	}
	genRelated()
}

// every pair of leaf constructs on ONE field, with values in every order relation, under every connective: two operands that are
// each unremarkable and related (a lower and an upper limit, the same value twice, a value and its neighbour)
func genRelated() {
	ops := []string{":", "=", ":>", ":>=", ":<", ":<="}
	nums := [][2]string{{"1", "5"}, {"5", "1"}, {"5", "5"}, {"1.5", "99"}, {"-3", "0"}, {"10", "20"}}
	strs := [][2]string{{"b", "b"}, {"b", "B"}, {"abc", "abd"}, {"x", "\"x\""}, {"\"q r\"", "\"q  r\""}, {"5", "\"5\""}, {"w*", "w?"}, {"w*", "\"w*\""}}
	conns := []string{" AND ", " OR ", " ", " AND NOT ", " OR -"}
	g := 800000
	emit := func(q string) {
		emitQ(q, "", "src=related")
		emitQ("("+q+") OR x:y", "d", "src=related")
		// and as a C11 pair: without and with a default field the query does not mention
		emitQ(q, "", fmt.Sprintf("rel=C11;g=%d;role=a", g))
		emitQ(q, "dflt", fmt.Sprintf("rel=C11;g=%d;role=b", g))
		g++
	}
	for _, o1 := range ops {
		for _, o2 := range ops {
			for _, c := range conns {
				for _, v := range nums {
					emit("a" + o1 + v[0] + c + "a" + o2 + v[1])
				}
				if (o1 == ":" || o1 == "=") && (o2 == ":" || o2 == "=") {
					for _, v := range strs {
						emit("a" + o1 + v[0] + c + "a" + o2 + v[1])
						emit("a" + o1 + v[0] + c + "b" + o2 + v[1])
					}
				}
			}
		}
	}
	// ranges next to comparisons and to each other on one field
	for _, r := range []string{"[1 TO 5]", "{1 TO 5}", "[5 TO 1]", "[5 TO 5]", "[* TO 5]", "[1 TO *]", "[a TO c]", "[c TO a]"} {
		for _, c := range conns {
			emit("a:" + r + c + "a:>=1")
			emit("a:<=5" + c + "a:" + r)
			emit("a:" + r + c + "a:" + r)
		}
	}
	// characters that come in pairs, split across two values of one query: an opening one in one value, the closing one in another
	for _, pc := range [][2]string{{"(", ")"}, {"[", "]"}, {"{", "}"}, {"'", "'"}, {"/*", "*/"}, {"((", ")"}, {"(", "))"}, {"$$", "$$"}, {"E'", "'"}} {
		o, c := pc[0], pc[1]
		for _, tpl := range []string{`(a:"%sx" OR b:"y%s") AND c:1`, `a:"%sx" AND (b:"y%s" OR c:1)`, `NOT (a:"%sx" AND b:"y%s")`, `(a:"%sx" OR b:"y%s") AND (c:"%sz" OR d:1)`,
			`a:"%sx" b:"y%s"`, `a:("%sx" OR "y%s") AND c:1`, `(a:"x%s" OR b:"%sy") AND c:1`, `+(a:"%sx" OR b:w*) -(c:"y%s" AND d:2)`} {
			args := []any{o, c, o}
			if strings.Contains(tpl, `"x%s" OR b:"%sy"`) {
				args = []any{c, o}
			}
			n := countVerb(tpl)
			emitQ(fmt.Sprintf(tpl, args[:n]...), "", "src=related")
		}
	}
	// field names that hold a wildcard character, numeric field names next to a lone star, quoted numbers next to an open end
	for _, q := range []string{"a?:b", "x*y:1", "a?:[1 TO 2]", `"q?":w*`, "a?:(x OR y)", "a?:b AND c?:d", "?:1", "5:*", "1.5:*", "-3:*", "5:w*", `5:"*"`, "b:x AND NOT 7:(*)", "5:?",
		`a:["5" TO *]`, `a:{* TO "2.5"}`, `a:["5" TO "7"]`, `a:{"1" TO 5}`, "a:{* TO 2.5}", "a:{* TO 2.50}", "a:[2.5 TO *}", "a:{1.25 TO *]", "a:{* TO 3}", "a:[* TO *}", "a:{* TO *}",
		"a:[now/d TO c]", "a:[1/2 TO 3]", "a:{x TO y/z}", "a:b/c", "a:(b/c OR d)", "now/d", "a:x/", "a:[x/ TO y]",
		"a~-2", "a~0", "a^-1", "a:b~-1", "+a:1 OR -b:2", "-a:1 OR +b:2", "+a:1 OR b:2", "NOT a:1 OR -b:2", "+a:1 AND -b:2"} {
		emitQ(q, "", "src=related")
		emitQ(q, "p?", "src=related")
	}
	// sub-lists inside value lists, in every position
	for _, l := range []string{"(w OR (x OR y) OR z)", "(x OR (y OR (z OR w)))", "((x OR y) OR (z OR w))", "(x OR (y) OR z)", "((x) OR y)", "(w OR (x OR y))", "((w OR x) OR y OR z)", "(1 OR (2 OR 3) OR 4)",
		"(b OR c OR d*)", "(b OR d* OR c)", "(d* OR b OR c)", "(b OR c OR /r/)", "(b OR c OR k:v)", "(k:v OR b)", "(b OR c OR d~)", "(b^2 OR c)", "(b OR c^2)", "(b OR c OR NOT d)", "(+b -c)", "((+b -c))", "(x OR (+b -c))"} {
		emit("a:" + l)
		emitQ("a:"+l, "dflt", "src=related")
		emitQ("a:"+l+" AND g:1", "dflt", "src=related")
	}
	// value lists with repeated and related values
	for _, l := range []string{"(x OR x)", "(x OR y OR x)", "(x OR X)", "(1 OR 1)", "(1 OR 2 OR 1)", "(\"5\" OR 5)", "(x OR \"x\")", "(open OR closed OR open)"} {
		emit("a:" + l)
		emit("a:" + l + " AND a:x")
	}
}

func countVerb(p string) int {
	n := 0
	for i := 0; i+1 < len(p); i++ {
		if p[i] == '%' && p[i+1] == 's' {
			n++
		}
	}
	return n
}
