(* C13 — Decoding untrusted JSON is safe, and validation guards rendering. *)
Require Import Parser Render Decode Shape Guard DecodedShape.
Require Import RenderTotal DecodeShape DecodeGuard DecodeGuard2 DecodeFuel.
From Coq Require Import List String.

(* for every JSON syntax tree (any operator names, missing/extra/null/wrongly typed members, nested arrays and objects) and
   every oracle the decoder returns a tree or an error, never a panic *)
Theorem C13_decode_never_panics : forall (o : oracle) (v : jv) (s : string), decode o v <> DPanic s.
Proof. exact decode_no_panic. Qed.

(* the decoder's fuel is never the reason for an outcome *)
Theorem C13_decode_fuel_free : forall (o : oracle) (v : jv) (k : nat), decode o v = unmarshal o (S (jsize v) + k) v.
Proof. exact decode_fuel_free. Qed.

(* a decoded expression that passes Validate can be printed, encoded and rendered: every one returns a result or an error *)
Theorem C13_validated_renders : forall (o : oracle) (o2 : oracle2) (v : jv) (e : expr),
  decode o v = DOk e -> validate e = true ->
  (forall verbose, is_ret (str_e o2 verbose e)) /\ is_ret (render o2 e) /\ is_ret (render_param o2 e) /\ is_ret (marshal_e o2 e).
Proof. exact validated_renders. Qed.

Print Assumptions C13_decode_never_panics.
Print Assumptions C13_decode_fuel_free.
Print Assumptions C13_validated_renders.
