(* C02 / C03 specification, structure side: the SQL token sequence and the SQL expression tree that belong to a query tree
   of the filterable fragment.
   tr e = Some (ts, a): ts is the token sequence (PgModel.tok, what PostgreSQL's scanner makes of the rendered text) the
   postgres renderer writes for e, and a is the expression PostgreSQL's grammar must read from it:
     x AND y      ( X ) AND ( Y )          BoolExpr AND, flattened as gram.y's makeAndExpr does
     x OR y       ( X ) OR ( Y )           BoolExpr OR
     NOT x, -x    NOT ( X )                NOT
     +x           X
     f:v f=v      "f" = c                  comparison of a column with a constant (integer or string)
     f:>v ...     "f" > c, >=, <, <=
     f:pat        "f" SIMILAR TO 'pat''     * -> %, ? -> _
     f:(a OR b)   "f" IN ( a , b )
     f:[a TO b]   "f" >= a AND "f" <= b    exclusive: > and <; an open end drops its comparison   (integer bounds)
   Outside the fragment (None): floats (their text is an oracle), string ranges and the other known findings K1-K6,
   regular expressions, fuzzy, boost, bare terms.
   The driver compares, per case, PgModel.pg_lex of the implementation's SQL text with ts (correspondence SqlToks). *)
Require Import Parser Render PgModel QuerySem SqlSem.
From Coq Require Import List Ascii String ZArith Bool.
Import ListNotations.
Open Scope string_scope.

Definition nat_digits (z : Z) : bytes := str (z_digits 30 z "").
Definition int_toks (z : Z) : list tok :=
  if (z <? 0)%Z then [TOp (str "-"); TNum (nat_digits (- z))] else [TNum (nat_digits z)].
Definition int_ast (z : Z) : ast := if (z <? 0)%Z then ANum true (nat_digits (- z)) else ANum false (nat_digits z).

Definition const_sql (lf : Parser.expr) : option (list tok * ast) :=
  match lf with
  | E (VInt z) Literal VNil _ _ => Some (int_toks z, int_ast z)
  | E (VStr s) Literal VNil _ _ => Some ([TStr (str s)], AStr (str s))
  | _ => None
  end.

Definition translate (p : string) : string := replace_char "?"%char "_" (replace_char "*"%char "%" p).
Definition plain_char (c : ascii) : bool :=
  negb (Ascii.eqb c "%"%char) && negb (Ascii.eqb c "_"%char).
Fixpoint no_sql_wild (p : string) : bool := match p with EmptyString => true | String c r => plain_char c && no_sql_wild r end.

Definition cmp_text (op : operator) : option string :=
  match op with
  | Equals => Some "=" | Greater => Some ">" | Less => Some "<" | GreaterEq => Some ">=" | LessEq => Some "<=" | _ => None
  end.

Fixpoint consts_sql (l : list Parser.expr) : option (list (list tok) * list ast) :=
  match l with
  | [] => Some ([], [])
  | x :: r => match const_sql x, consts_sql r with
              | Some (t, a), Some (ts, as_) => Some (t :: ts, a :: as_)
              | _, _ => None
              end
  end.
Fixpoint comma_join (l : list (list tok)) : list tok :=
  match l with [] => [] | [x] => x | x :: r => x ++ TComma :: comma_join r end.

Definition int_bound (v : value) : option Z :=
  match v with VExp (E (VInt z) Literal VNil _ _) => Some z | _ => None end.

Fixpoint tr (e : Parser.expr) : option (list tok * ast) :=
  match e with
  | E l op rt _ _ =>
    match op with
    | And | Or =>
        match l, rt with
        | VExp x, VExp y =>
            match tr x, tr y with
            | Some (tx, ax), Some (ty, ay) =>
                Some (TLP :: tx ++ TRP :: TKw (match op with And => KAnd | _ => KOr end) :: TLP :: ty ++ [TRP],
                      match op with And => mk_and ax ay | _ => mk_or ax ay end)
            | _, _ => None
            end
        | _, _ => None
        end
    | Not | MustNot =>
        match l, rt with
        | VExp x, VNil => match tr x with Some (tx, ax) => Some (TKw KNot :: TLP :: tx ++ [TRP], ANot ax) | None => None end
        | _, _ => None
        end
    | Must => match l, rt with VExp x, VNil => tr x | _, _ => None end
    | Equals | Greater | Less | GreaterEq | LessEq =>
        match field_of l, rt, cmp_text op with
        | Some f, VExp lf, Some o =>
            match const_sql lf with
            | Some (tc, ac) => Some (TIdent (str f) :: TOp (str o) :: tc, AOp (str o) (ACol (str f)) ac)
            | None => None
            end
        | _, _, _ => None
        end
    | Like =>
        match field_of l, rt with
        | Some f, VExp (E (VStr p) Wild VNil _ _) =>
            Some ([TIdent (str f); TKw KSimilar; TKw KTo; TStr (str (translate p))], ASimilar (ACol (str f)) (AStr (str (translate p))))
        | _, _ => None
        end
    | Tables.In =>
        match field_of l, rt with
        | Some f, VExp (E (VList (x :: lits)) Tables.List VNil _ _) =>
            match consts_sql (x :: lits) with
            | Some (ts, as_) => Some (TIdent (str f) :: TKw KIn :: TLP :: comma_join ts ++ [TRP], AIn (ACol (str f)) as_)
            | None => None
            end
        | _, _ => None
        end
    | Range =>
        match field_of l, rt with
        | Some f, VBound lo hi incl =>
            let c := TIdent (str f) in
            let ge := str (if incl then ">=" else ">") in
            let le := str (if incl then "<=" else "<") in
            match int_bound lo, int_bound hi, is_star lo, is_star hi with
            | Some a, Some b, _, _ =>
                Some (c :: TOp ge :: int_toks a ++ TKw KAnd :: c :: TOp le :: int_toks b,
                      ABool true [AOp ge (ACol (str f)) (int_ast a); AOp le (ACol (str f)) (int_ast b)])
            | None, Some b, true, _ => Some (c :: TOp le :: int_toks b, AOp le (ACol (str f)) (int_ast b))
            | Some a, None, _, true => Some (c :: TOp ge :: int_toks a, AOp ge (ACol (str f)) (int_ast a))
            | _, _, _, _ => None
            end
        | _, _ => None
        end
    | _ => None
    end
  end.

(* the constructs C02 allows in a rendered expression *)
Fixpoint allowed (a : ast) : bool :=
  match a with
  | ACol _ | AStr _ | ANum _ _ | AParam _ => true
  | ABool _ l => forallb allowed l
  | ANot x => allowed x
  | AOp o x y => cmp_op o && allowed x && allowed y
  | ABetween x lo hi => allowed x && allowed lo && allowed hi
  | AIn x l => allowed x && forallb allowed l
  | ASimilar x p => allowed x && allowed p
  | AUnary _ _ => false
  end.

(* ---- side conditions of the semantic theorem (Proofs/SqlSemProof.v) ---- *)
Definition int_in_range (z : Z) : bool := (Z.abs z <? 10 ^ 30)%Z.
Definition const_side (lf : Parser.expr) : bool :=
  match lf with E (VInt z) _ _ _ _ => int_in_range z | _ => true end.
Definition sql_meta_free (c : ascii) : bool := negb (similar_meta c) || Ascii.eqb c "*"%char || Ascii.eqb c "?"%char.
Fixpoint meta_free (p : string) : bool := match p with EmptyString => true | String c r => sql_meta_free c && meta_free r end.
Definition pattern_side (p : string) : bool := no_sql_wild p && meta_free p.
Definition bound_side (v : value) : bool := match v with VExp lf => const_side lf | _ => true end.

Fixpoint side (e : Parser.expr) : bool :=
  match e with
  | E l op rt _ _ =>
    match op with
    | And | Or => side_v l && side_v rt
    | Not | MustNot | Must => side_v l
    | Equals | Greater | Less | GreaterEq | LessEq => bound_side rt
    | Like => match rt with VExp (E (VStr p) _ _ _ _) => pattern_side p | _ => true end
    | Tables.In => match rt with VExp (E (VList lits) _ _ _ _) => forallb const_side lits | _ => true end
    | Range => match rt with VBound lo hi _ => bound_side lo && bound_side hi | _ => true end
    | _ => true
    end
  end
with side_v (v : value) : bool := match v with VExp e => side e | _ => true end.

(* ---- premises of the text-level theorems (Proofs/SqlLex.v, Proofs/SqlText.v) ---- *)
Definition fname (l : value) : string := match field_of l with Some f => f | None => "" end.

(* field names PostgreSQL reads back unchanged: non-empty, no double quote, at most 63 bytes *)
Definition name_ok (f : string) : bool :=
  match str f with [] => false | _ => true end && forallb (fun c => negb (Ascii.eqb c """"%char)) (str f) && (List.length (str f) <=? 63)%nat.
Fixpoint names_ok (e : Parser.expr) : bool :=
  match e with
  | E l op rt _ _ =>
    match op with
    | And | Or => names_ok_v l && names_ok_v rt
    | Not | MustNot | Must => names_ok_v l
    | _ => name_ok (fname l)
    end
  end
with names_ok_v (v : value) : bool := match v with VExp e => names_ok e | _ => true end.

Definition sqs (v : string) : string := "'" ++ replace_char "'"%char "''" v ++ "'".
Definition dqs (f : string) : string := """" ++ f ++ """".
Definition int64 (z : Z) : bool := ((-9223372036854775808 <=? z)%Z && (z <=? 9223372036854775807)%Z).
(* ---- premises on the text ---- *)
Definition like_plain (p : string) : bool :=
  let r := sqs p in let n := String.length r in negb ((4 <=? n)%nat && char_at_is r 1 "/"%char && char_at_is r (n - 2) "/"%char).
Definition bound_int64 (v : value) : bool := match int_bound v with Some z => int64 z | None => true end.
Fixpoint text_ok (e : Parser.expr) : bool :=
  match e with
  | E l op rt _ _ =>
    match op with
    | And | Or => text_ok_v l && text_ok_v rt
    | Not | MustNot | Must => text_ok_v l
    | Like => match rt with VExp (E (VStr p) _ _ _ _) => like_plain p | _ => true end
    | Range => match rt with VBound lo hi _ => bound_int64 lo && bound_int64 hi | _ => true end
    | _ => true
    end
  end
with text_ok_v (v : value) : bool := match v with VExp e => text_ok e | _ => true end.

