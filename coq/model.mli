
val negb : bool -> bool

type nat =
| O
| S of nat

val option_map : ('a1 -> 'a2) -> 'a1 option -> 'a2 option

type ('a, 'b) sum =
| Inl of 'a
| Inr of 'b

val fst : ('a1 * 'a2) -> 'a1

val snd : ('a1 * 'a2) -> 'a2

val length : 'a1 list -> nat

val app : 'a1 list -> 'a1 list -> 'a1 list

type comparison =
| Eq
| Lt
| Gt

val compOpp : comparison -> comparison

val add : nat -> nat -> nat

val mul : nat -> nat -> nat

val sub : nat -> nat -> nat

val eqb : bool -> bool -> bool

module Nat :
 sig
  val eqb : nat -> nat -> bool

  val leb : nat -> nat -> bool

  val ltb : nat -> nat -> bool

  val compare : nat -> nat -> comparison
 end

val hd : 'a1 -> 'a1 list -> 'a1

val tl : 'a1 list -> 'a1 list

val nth_error : 'a1 list -> nat -> 'a1 option

val last : 'a1 list -> 'a1 -> 'a1

val rev : 'a1 list -> 'a1 list

val rev_append : 'a1 list -> 'a1 list -> 'a1 list

val list_eq_dec : ('a1 -> 'a1 -> bool) -> 'a1 list -> 'a1 list -> bool

val map : ('a1 -> 'a2) -> 'a1 list -> 'a2 list

val flat_map : ('a1 -> 'a2 list) -> 'a1 list -> 'a2 list

val fold_left : ('a1 -> 'a2 -> 'a1) -> 'a2 list -> 'a1 -> 'a1

val fold_right : ('a2 -> 'a1 -> 'a1) -> 'a1 -> 'a2 list -> 'a1

val existsb : ('a1 -> bool) -> 'a1 list -> bool

val forallb : ('a1 -> bool) -> 'a1 list -> bool

val find : ('a1 -> bool) -> 'a1 list -> 'a1 option

val firstn : nat -> 'a1 list -> 'a1 list

val skipn : nat -> 'a1 list -> 'a1 list

type positive =
| XI of positive
| XO of positive
| XH

type n =
| N0
| Npos of positive

type z =
| Z0
| Zpos of positive
| Zneg of positive

module Pos :
 sig
  type mask =
  | IsNul
  | IsPos of positive
  | IsNeg
 end

module Coq_Pos :
 sig
  val succ : positive -> positive

  val add : positive -> positive -> positive

  val add_carry : positive -> positive -> positive

  val pred_double : positive -> positive

  type mask = Pos.mask =
  | IsNul
  | IsPos of positive
  | IsNeg

  val succ_double_mask : mask -> mask

  val double_mask : mask -> mask

  val double_pred_mask : positive -> mask

  val sub_mask : positive -> positive -> mask

  val sub_mask_carry : positive -> positive -> mask

  val sub : positive -> positive -> positive

  val mul : positive -> positive -> positive

  val iter : ('a1 -> 'a1) -> 'a1 -> positive -> 'a1

  val pow : positive -> positive -> positive

  val size_nat : positive -> nat

  val compare_cont : comparison -> positive -> positive -> comparison

  val compare : positive -> positive -> comparison

  val eqb : positive -> positive -> bool

  val ggcdn : nat -> positive -> positive -> positive * (positive * positive)

  val ggcd : positive -> positive -> positive * (positive * positive)

  val iter_op : ('a1 -> 'a1 -> 'a1) -> positive -> 'a1 -> 'a1

  val to_nat : positive -> nat

  val of_nat : nat -> positive

  val of_succ_nat : nat -> positive
 end

module N :
 sig
  val add : n -> n -> n

  val sub : n -> n -> n

  val mul : n -> n -> n

  val compare : n -> n -> comparison

  val eqb : n -> n -> bool

  val leb : n -> n -> bool

  val ltb : n -> n -> bool

  val to_nat : n -> nat

  val of_nat : nat -> n
 end

module Z :
 sig
  val double : z -> z

  val succ_double : z -> z

  val pred_double : z -> z

  val pos_sub : positive -> positive -> z

  val add : z -> z -> z

  val opp : z -> z

  val sub : z -> z -> z

  val mul : z -> z -> z

  val pow_pos : z -> positive -> z

  val pow : z -> z -> z

  val compare : z -> z -> comparison

  val sgn : z -> z

  val leb : z -> z -> bool

  val ltb : z -> z -> bool

  val eqb : z -> z -> bool

  val abs : z -> z

  val to_nat : z -> nat

  val of_nat : nat -> z

  val to_pos : z -> positive

  val pos_div_eucl : positive -> z -> z * z

  val div_eucl : z -> z -> z * z

  val div : z -> z -> z

  val modulo : z -> z -> z

  val ggcd : z -> z -> z * (z * z)
 end

val zero : char

val one : char

val shift : bool -> char -> char

val ascii_of_pos : positive -> char

val ascii_of_N : n -> char

val ascii_of_nat : nat -> char

val n_of_digits : bool list -> n

val n_of_ascii : char -> n

val nat_of_ascii : char -> nat

val eqb0 : char list -> char list -> bool

val append : char list -> char list -> char list

val length0 : char list -> nat

val string_of_list_ascii : char list -> char list

val list_ascii_of_string : char list -> char list

type toktype =
| TErr
| TLiteral
| TQuoted
| TRegexp
| TEqual
| TGreater
| TLess
| TColon
| TPlus
| TMinus
| TTilde
| TCarrot
| TNot
| TAnd
| TOr
| TRParen
| TLParen
| TLCurly
| TRCurly
| TTO
| TLSquare
| TRSquare
| TEOF
| TStart

val toktype_order : toktype list

val symbols : (n * toktype) list

val terminal_tokens : toktype list

type reducer_id =
| R_and
| R_or
| R_equal
| R_compare
| R_compareEq
| R_not
| R_sub
| R_must
| R_mustNot
| R_fuzzy
| R_boost
| R_rangeop

val reducer_order : reducer_id list

type operator =
| Undefined
| And
| Or
| Equals
| Like
| Not
| Range
| Must
| MustNot
| Boost
| Fuzzy
| Literal
| Wild
| Regexp
| Greater
| Less
| GreaterEq
| LessEq
| In
| List

val operator_order : operator list

val from_string : (char list * operator) list

val to_string : (operator * char list) list

val validators : (operator * char list) list

val renderers : (operator * char list) list

type renderfn_id =
| Fn_basicCompound of operator
| Fn_equals
| Fn_like
| Fn_basicWrap of operator
| Fn_rang
| Fn_noop
| Fn_literal
| Fn_greater
| Fn_less
| Fn_greaterEq
| Fn_lessEq
| Fn_inFn
| Fn_list

val shared_fns : (operator * renderfn_id) list

val postgres_own_fns : (operator * renderfn_id) list

type q = { qnum : z; qden : positive }

val inject_Z : z -> q

val qcompare : q -> q -> comparison

val qplus : q -> q -> q

val qmult : q -> q -> q

val qopp : q -> q

val qminus : q -> q -> q

val qinv : q -> q

val qdiv : q -> q -> q

val qred : q -> q

val tt_eqb : toktype -> toktype -> bool

val index_of : toktype -> toktype list -> nat

val prec : toktype -> nat

type token = { typ : toktype; val0 : char list }

val is : toktype -> token -> bool

val is_terminal : token -> bool

val is_prefix_op : toktype -> bool

val has_less_precedence : token -> token -> bool

val op_eqb : operator -> operator -> bool

type value =
| VNil
| VInt of z
| VFloat of z
| VStr of char list
| VBool of bool
| VCol of char list
| VExp of expr
| VList of expr list
| VBound of value * value * bool
and expr =
| E of value * operator * value * z * z

val e_left : expr -> value

val e_op : expr -> operator

val e_right : expr -> value

val one_bits : z

type 'a out =
| Ret of 'a
| Panic of char list

val bind : 'a1 out -> ('a1 -> 'a2 out) -> 'a2 out

type oracle = { parse_float : (char list -> z option);
                is_nan_or_inf : (z -> bool); float_pos : (z -> bool);
                float_of_int : (z -> z) }

val contains_char : char -> char list -> bool

val remove_char : char -> char list -> char list

val first_char : char list -> char option

val last_char : char list -> char option

val digit_val : char -> z option

val digits : char list -> z -> z option

val atoi : char list -> z option

val empty_e : value -> operator -> value -> expr

val is_literal : value -> bool

val is_stringlike : value -> bool

val operates_on_column : operator -> bool

val lit : value -> expr

val wild : char list -> expr

val regexp : char list -> expr

val wrap_in_column : value -> value

val literal_to_expr : value -> expr

val should_use_like : value -> bool

val expr_new : value -> operator -> value list -> expr out

val eq_ : value -> value -> expr out

val parse_literal : oracle -> token -> expr

type item =
| ITok of token
| IExp of expr

val is_leaf_op : operator -> bool

val wrap_literal : expr -> char list -> expr out

val value_eqb_col : value -> char list -> bool

val chained_or_literals : char list -> expr -> expr list * bool

val drop : nat -> 'a1 list -> 'a1 list out

type red =
  item list -> token list -> char list -> (item list * token list) out option

val r_and_or : toktype -> operator -> red

val r_equal : red

val r_compare : red

val r_compare_eq : red

val split_last2 : 'a1 list -> (('a1 list * 'a1) * 'a1) option

val r_not : red

val r_sub : red

val r_prefix : toktype -> operator -> red

val r_fuzzy : red

val to_positive_float : oracle -> expr -> z option

val r_boost : oracle -> red

val r_range : red

val reducers : oracle -> red list

val try_reducers :
  red list -> item list -> token list -> char list -> (item list * token
  list) out option

type rres =
| RFail
| RPanic of char list
| ROk of item list * token list

val reduce_loop :
  oracle -> item list -> item list -> token list -> char list -> rres

val any_open_bracket : token -> token -> bool

val should_shift : token list -> token -> bool out

type cfg = { rs : item list; ns : token list; toks : token list;
             pend : expr option }

type res =
| Next of cfg
| Accept of expr
| Reject
| Crash of char list

val eof : token

val impl_and : token

val start : token

val do_reduce : oracle -> cfg -> char list -> res

val step : oracle -> char list -> cfg -> res

type presult =
| PTree of expr
| PErr
| PPanic of char list
| POutOfFuel

val run : oracle -> nat -> char list -> cfg -> presult

val is_literal_expr : value -> bool

val is_nil : value -> bool

val is_bound : value -> bool

val validate_node : expr -> bool

val validate : expr -> bool

val parse_toks : oracle -> char list -> token list -> presult

type oracle2 = { fmt_v : (z -> char list); fmt_2f : (z -> char list);
                 fmt_1f : (z -> char list); f_gt1 : (z -> bool);
                 go_quote : (char list -> char list);
                 json_str : (char list -> char list);
                 json_num : (z -> char list option);
                 pfloat : (char list -> z option);
                 valid_utf8 : (char list -> bool) }

val z_digits : nat -> z -> char list -> char list

val z_to_string : z -> char list

val join : char list -> char list list -> char list

val replace_char : char -> char list -> char list -> char list

val nth_char : nat -> char list -> char option

val char_at_is : char list -> nat -> char -> bool

val split_comma : char list -> char list -> char list list

val trim_left : char list -> char list

val rev_str : char list -> char list -> char list

val trim : char list -> char list

val op_string : operator -> char list

type ftext = { txt : char list; bad : bool; opaque : bool }

val ok : char list -> ftext

val badv : char list -> ftext

val cat : ftext -> ftext -> ftext

val cats : ftext list -> ftext

val joinf : char list -> ftext list -> ftext

val bool_str : bool -> char list

val vb : nat -> bool

val str_e : oracle2 -> bool -> expr -> ftext out

type gerr = char list option

type sres = char list * gerr

val is_simple : value -> bool

val no_wrap_op : operator -> bool

val fn_literal : oracle2 -> char list -> char list -> sres

val fn_like : char list -> char list -> sres

val to_ints : char list -> char list -> (z * z) option

val to_floats : oracle2 -> char list -> char list -> (z * z) option

val range_text :
  char list -> bool -> char list -> char list -> char list -> char list ->
  char list

val last_is : char list -> char -> bool

val first_is : char list -> char -> bool

val strip_ends : char list -> char list

val fn_rang_core :
  char list -> char list -> (bool -> char list -> char list -> sres out) ->
  sres out

val rang_by_text :
  oracle2 -> char list -> bool -> char list -> char list -> sres

val fn_rang : oracle2 -> char list -> char list -> sres out

val fn_rang_param :
  oracle2 -> char list -> char list -> value list -> sres out

val pg_fn : oracle2 -> operator -> (char list -> char list -> sres out) option

val ser_column : char list -> sres

val wrap_if : bool -> char list -> char list

val render : oracle2 -> expr -> sres out

type pres = (char list * value list) * gerr

val is_regex_text : char list -> bool

val render_param : oracle2 -> expr -> pres out

val is_leaf : operator -> bool

val marshal_e : oracle2 -> expr -> char list option out

type jv =
| JNull
| JTrue
| JFalse
| JNum of char list
| JStr of char list * char list
| JArr of jv list
| JObj of ((char list * char list) * jv) list

val jraw : jv -> char list

val lower_ascii : char -> char

val lower : char list -> char list

val substr_at : char list -> char list -> bool

val contains : char list -> char list -> bool

val is_ws : char -> bool

val strip_ws : char list -> char list

val looks_like_boundary : jv -> bool

val op_of_string : char list -> operator

type dres =
| DOk of expr
| DErr
| DPanic of char list

val unmarshal_literal : oracle -> jv -> dres

val bindings : char list -> ((char list * char list) * jv) list -> jv list

val fold_field : ('a1 -> jv -> 'a1 option) -> 'a1 -> jv list -> 'a1 option

val dec_int : jv list -> z option option

val dec_float : oracle -> jv list -> z option option

val dec_string : jv list -> char list option

val dec_bool : jv list -> bool option

val dec_raw : jv list -> jv option

val dec_boundaries_ok : jv list -> bool

val lift : (jv -> dres) -> jv -> (value option, char list) sum

val left_list :
  oracle -> jv list -> expr list -> (value option, char list) sum

val dec_left :
  oracle -> (jv -> dres) -> jv option -> (value option, char list) sum

val bound_step :
  (jv -> dres) -> (value option, char list) sum -> jv -> (value option,
  char list) sum

val dec_bound : (jv -> dres) -> jv list -> (value option, char list) sum

val dec_right : (jv -> dres) -> jv option -> (value option, char list) sum

val um_obj :
  oracle -> (jv -> dres) -> ((char list * char list) * jv) list -> dres

val unmarshal : oracle -> nat -> jv -> dres

val jsize : jv -> nat

val decode : oracle -> jv -> dres

val render_with :
  oracle2 -> (operator -> (char list -> char list -> sres out) option) ->
  expr -> sres out

val missing :
  (operator -> (char list -> char list -> sres out) option) -> expr -> bool

val has_fb : expr -> bool

val vhas_fb : value -> bool

type call = (operator * char list) * char list

val render_tr :
  oracle2 -> (operator -> (char list -> char list -> sres out) option) ->
  expr -> (sres * call list) out

val postorder : expr -> operator list

val postorder_v : value -> operator list

type bytes = char list

val bval : char -> n

val rune_error : n

val in_range : n -> n -> n -> bool

val cont : n -> bool

val decode_rune : bytes -> (n * nat) option

type token0 = { typ0 : toktype; val1 : bytes }

type classes = { is_letter : (n -> bool); is_digit : (n -> bool) }

val ch : char -> n

val is_alnum : classes -> n -> bool

val is_wildcard : n -> bool

val is_escape : n -> bool

val is_space : n -> bool

val assoc_N : n -> (n * toktype) list -> toktype option

val symbol : n -> toktype option

val take_onto : nat -> bytes -> bytes -> bytes * bytes

val skip_space : bytes -> bytes

type lexres =
| Tok of token0 * bytes
| LErr

val upper_ascii : char -> char

val bytes_eqb : bytes -> bytes -> bool

val kw : char list -> bytes

val word_type : bytes -> toktype

val lex_word : classes -> nat -> bytes -> bytes -> lexres

val lex_phrase : classes -> nat -> n -> bytes -> bytes -> lexres

val lex_regexp : classes -> nat -> n -> bytes -> bytes -> lexres

val eof_tok : token0

val err_tok : token0

val next_token : classes -> bytes -> token0 * bytes

val lex_all : classes -> nat -> bytes -> token0 list

val lex : classes -> bytes -> token0 list

type lstate = { rest : bytes; last_eof : bool }

val linit : bytes -> lstate

val is_eof : token0 -> bool

val lnext : classes -> lstate -> token0 * lstate

val lpeek : classes -> lstate -> token0

val tok_of : token0 -> token

val lex_tokens : classes -> char list -> token list

val parse : oracle -> classes -> char list -> char list -> presult

val to_postgres :
  oracle -> oracle2 -> classes -> char list -> char list -> sres out

val to_param_postgres :
  oracle -> oracle2 -> classes -> char list -> char list -> pres out

type bytes0 = char list

val n0 : char -> nat

val is_c : char -> nat -> bool

type kw0 =
| KAnd
| KOr
| KNot
| KBetween
| KIn
| KSimilar
| KTo
| KOtherKw

type tok =
| TIdent of bytes0
| TStr of bytes0
| TNum of bytes0
| TParam of bytes0
| TOp of bytes0
| TKw of kw0
| TLP
| TRP
| TComma
| TBad of char list

val is_space0 : char -> bool

val is_digit0 : char -> bool

val is_ident_start : char -> bool

val is_ident_cont : char -> bool

val is_op_char : char -> bool

val lower0 : char -> char

val str : char list -> bytes0

val beq : bytes0 -> bytes0 -> bool

val is_cont_byte : char -> bool

val strip_partial : bytes0 -> bytes0

val truncate_ident : bytes0 -> bytes0

val skip_ws : bytes0 -> bytes0

val has_newline : bytes0 -> bool

val quoted_body : nat -> char -> bytes0 -> bytes0 -> (bytes0 * bytes0) option

val string_const : nat -> bytes0 -> bytes0 -> (bytes0 * bytes0) option

val span : (char -> bool) -> bytes0 -> bytes0 -> bytes0 * bytes0

val keyword : bytes0 -> kw0 option

val cut_comment : bytes0 -> bytes0 -> bytes0

val special_op : char -> bool

val strip_pm : bytes0 -> bytes0

val op_text : bytes0 -> bytes0

val next : bytes0 -> (tok * bytes0) option

val lex_all0 : nat -> bytes0 -> tok list

val pg_lex : bytes0 -> tok list

type ast =
| ACol of bytes0
| AStr of bytes0
| ANum of bool * bytes0
| AParam of bytes0
| ABool of bool * ast list
| ANot of ast
| AOp of bytes0 * ast * ast
| AUnary of bytes0 * ast
| AIn of ast * ast list
| ABetween of ast * ast * ast
| ASimilar of ast * ast

type pres0 =
| POk of ast * tok list
| PFail of char list

val cmp_op : bytes0 -> bool

val addsub : bytes0 -> bool

val muldiv : bytes0 -> bool

val negate : ast -> ast

val mk_and : ast -> ast -> ast

val mk_or : ast -> ast -> ast

val expr0 : nat -> nat -> bool -> tok list -> pres0

val pg_parse : tok list -> ast option

val pg_read : bytes0 -> ast option

val leaf_val : value -> bool

val is_leaf0 : expr -> bool

val is_pattern : expr -> bool

val is_plain : expr -> bool

val wf : bool -> expr -> bool

val colwrap : expr -> expr

val scw : char list -> expr -> expr

val eqx : expr -> expr -> expr

val cmpx : operator -> expr -> expr -> expr

val rangex : expr -> expr -> expr -> bool -> expr

val inx : expr -> expr list -> expr

val mk2 : operator -> expr -> expr -> expr

val mk1 : operator -> expr -> expr

val mk_fuzzy : expr -> z -> expr

val mk_boost : expr -> z -> expr

val spelling : toktype -> char list

val tk : toktype -> token

val cmp_op0 : token -> bool -> operator

val fe_node : expr -> expr -> expr

type qt =
| QTerm of token
| QFv of token * token * token
| QCmp of token * token * token * token option * token
| QRange of token * token * token * token * token * token * token
| QFe of token * token * qt
| QAnd of qt * qt
| QOr of qt * qt
| QNot of qt
| QMust of qt
| QMustNot of qt
| QBoost of qt * token option
| QFuzzy of qt * token option
| QPar of qt

val pr : qt -> token list

val want : oracle -> qt -> expr

val sci : char list -> expr -> expr

val scope : char list -> expr -> expr

val clean : char list -> expr -> bool

val dq : char

val qm : char

val qcnt : bool -> char list -> nat

val gok : expr -> bool

val gv : value -> bool

val dsh : expr -> bool

type rval =
| RNum of q
| RStr of char list

type row = char list -> rval option

val pow2 : z -> z

val q_of_float_bits : z -> q option

val str_cmp : char list -> char list -> comparison

type cmpop =
| CEq
| CLt
| CLe
| CGt
| CGe

val holds_cmp : cmpop -> comparison -> bool

val leaf_const : expr -> rval option

val cmp_vals : cmpop -> rval -> rval -> bool option

val wild_match_fuel : nat -> char list -> char list -> bool

val wild_match : char list -> char list -> bool

val field_of : value -> char list option

val is_star : value -> bool

val opt_and : bool option -> bool option -> bool option

val opt_or : bool option -> bool option -> bool option

val cmp_leaf : row -> cmpop -> char list -> value -> bool option

val in_list : row -> char list -> expr list -> bool option

val qsem : row -> expr -> bool option

val sstr : bytes0 -> char list

val dec_digits : char list -> z -> nat -> ((z * nat) * char list) option

val q_of_decimal : char list -> q option

val similar_meta : char -> bool

val sim_match_fuel : nat -> char list -> char list -> bool

val sim_match : char list -> char list -> bool

val has_meta : char list -> bool

val nat_of_digits : char list -> nat -> nat

val operand : row -> rval list -> ast -> rval option

val cmp_of : char list -> cmpop option

val cmp2 : row -> rval list -> cmpop -> ast -> ast -> bool option

val ssem : row -> rval list -> ast -> bool option

val mid : q -> q -> q

val num_probes : q list -> q list

val q_lt : q -> q -> bool

val q_eq : q -> q -> bool

val key : char list -> char list * char list

val member : char list -> jv -> (char list * char list) * jv

val jbool : bool -> jv

val jnum : oracle2 -> z -> jv

val jstr : oracle2 -> char list -> jv

val cst_e : oracle2 -> expr -> jv

val z_opt_eqb : z option -> z -> bool

val float_ok_b : oracle -> oracle2 -> z -> bool

val power_ok_b : oracle -> oracle2 -> z -> bool

val int_ok_b : z -> bool

val dflt : z -> z -> bool

val leaf_rt_b : oracle -> oracle2 -> expr -> bool

val field_rt_b : oracle -> oracle2 -> expr -> bool

val ki_b : oracle -> oracle2 -> expr -> bool

val sk_e : expr -> expr -> bool

val sk_v : value -> value -> bool

val nat_digits : z -> bytes0

val int_toks : z -> tok list

val int_ast : z -> ast

val const_sql : expr -> (tok list * ast) option

val translate : char list -> char list

val plain_char : char -> bool

val no_sql_wild : char list -> bool

val cmp_text : operator -> char list option

val consts_sql : expr list -> (tok list list * ast list) option

val comma_join : tok list list -> tok list

val int_bound : value -> z option

val tr : expr -> (tok list * ast) option

val int_in_range : z -> bool

val const_side : expr -> bool

val sql_meta_free : char -> bool

val meta_free : char list -> bool

val pattern_side : char list -> bool

val bound_side : value -> bool

val side : expr -> bool

val side_v : value -> bool

val fname : value -> char list

val name_ok : char list -> bool

val names_ok : expr -> bool

val names_ok_v : value -> bool

val sqs : char list -> char list

val int64 : z -> bool

val like_plain : char list -> bool

val bound_int64 : value -> bool

val text_ok : expr -> bool

val text_ok_v : value -> bool

val pnum : nat -> bytes0

val const_param : expr -> value option

val consts_param : expr list -> value list option

val param_toks : nat -> nat -> tok list

val param_asts : nat -> nat -> ast list

val trp : expr -> nat -> ((tok list * ast) * value list) option

val number_q : bytes0 -> nat -> bool -> bool -> bytes0

val number_placeholders : bytes0 -> bytes0

val esc_u : classes -> nat -> bytes -> bytes

val esc : classes -> bytes -> bytes
