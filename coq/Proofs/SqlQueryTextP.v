(* C04 from the query TEXT: for a query printed from a specification tree whose parse is a tree of the fragment, whenever
   ToParameterizedPostgres returns (text, parameters), PostgreSQL reads from the text (placeholders numbered) one expression that,
   with the parameters bound, is true on exactly the rows on which the query is true. *)
Require Import Parser Render Api PgModel QuerySem SqlSem SqlFrag SqlFragP Shape Build Printer.
Require Lex LexWs LexWsG.
Require Import PrintedText SqlSemProofP SqlLexP SqlEndToEndP.
From Coq Require Import List Ascii String ZArith Bool Lia.
Import ListNotations.

Theorem to_param_postgres_on_printed_fragment_query :
  forall (o : oracle) (o2 : oracle2) (cl : Lex.classes),
  (forall r, Lex.is_space r = true -> Lex.is_alnum cl r = false) ->
  forall (t : qt) (ts : list tok) (a : ast) (ps ps' : list value) (s : string),
  wfq o t -> Forall (LexWsG.lexes_clean cl) (map ltok (pr t)) ->
  trp (want o t) 1 = Some (ts, a, ps) ->
  side (want o t) = true -> names_ok (want o t) = true -> (Z.of_nat (1 + pcount (want o t)) < 1000000000)%Z ->
  Api.to_param_postgres o o2 cl "" (text_of (pr t)) = Ret (s, ps', None) ->
  ps' = ps /\ pg_read (number_placeholders (str s)) = Some a /\ forall r : row, ssem r (map prv ps') a = qsem r (want o t).
Proof.
  intros o o2 cl Hws t ts a ps ps' s Wf La T S Nm Hk R.
  unfold Api.to_param_postgres in R. rewrite (printed_text_parses o cl Hws t Wf La) in R.
  destruct (render_param_reads o2 (want o t) ts a ps s ps' T Nm Hk R) as [Ep Rd]. split; [exact Ep|]. split; [exact Rd|].
  intros r. subst ps'. apply (trp_sem r (want o t) ts a ps T S).
  pose proof (trp_pcount_sz _ (want o t) (le_n _) 1 ts a ps T) as L. rewrite L. lia.
Qed.
