(* C08 (escaping clause), lexer level, ASCII: a text written as a bare word with a backslash before every character that is not
   a letter, digit or underscore is ONE Literal token carrying exactly those bytes: `f:esc(w)` lexes to
   [Literal f; Colon; Literal esc(w); EOF]. *)
Require Import Lex LexQuote LexField.
From Coq Require Import List Ascii String NArith Bool Arith Lia ZifyBool ZifyN ZifyNat.
Import ListNotations.

Section E.
Variable cl : classes.
Hypothesis dq_not_alnum : is_letter cl 34 = false /\ is_digit cl 34 = false.
Hypothesis colon_not_alnum : is_letter cl 58 = false /\ is_digit cl 58 = false.
Hypothesis backslash_not_alnum : is_letter cl 92 = false /\ is_digit cl 92 = false.
Hypothesis ws_not_alnum : forall r, is_space r = true -> is_alnum cl r = false.

Notation bs := "\"%char.
Definition asciib (c : ascii) : bool := (bval c <? 128)%N.

(* the escaped spelling: a backslash before every byte the word state would not keep by itself as a letter or digit *)
Fixpoint esc_b (w : bytes) : bytes :=
  match w with
  | [] => []
  | c :: r => if wordc cl c then c :: esc_b r else bs :: c :: esc_b r
  end.

Lemma esc_length w : List.length w <= List.length (esc_b w).
Proof. induction w as [|c w IH]; [cbn; lia|]. cbn [esc_b]. destruct (wordc cl c); cbn [List.length]; lia. Qed.

Lemma lex_word_esc : forall w acc fuel, forallb asciib w = true -> List.length w < fuel ->
  lex_word cl fuel (esc_b w) acc = Tok {| typ := word_type (rev acc ++ esc_b w); val := rev acc ++ esc_b w |} [].
Proof.
  induction w as [|c w IH]; intros acc fuel Ha Hl.
  - destruct fuel as [|fu]; [cbn in Hl; lia|]. cbn [esc_b lex_word]. change (decode_rune []) with (@None (N * nat)). cbv iota.
    rewrite app_nil_r. reflexivity.
  - cbn [forallb] in Ha. apply andb_true_iff in Ha. destruct Ha as [Hc Ha]. unfold asciib in Hc.
    destruct fuel as [|fu]; [cbn in Hl; lia|]. cbn [esc_b]. destruct (wordc cl c) eqn:W.
    + unfold wordc in W. apply andb_true_iff in W. destruct W as [_ Hw].
      cbn [lex_word]. rewrite (decode_ascii c _ Hc). cbv iota beta. rewrite Hw. cbn [orb take_onto].
      rewrite IH; [|exact Ha|cbn in Hl; lia]. cbn [rev]. rewrite <- app_assoc. reflexivity.
    + cbn [lex_word]. change (decode_rune (bs :: c :: esc_b w)) with (Some (92%N, 1)). cbv iota beta.
      assert (A : is_alnum cl 92 = false) by (unfold is_alnum; destruct backslash_not_alnum as [-> ->]; reflexivity).
      rewrite A. cbn [orb is_wildcard is_escape N.eqb Pos.eqb take_onto]. rewrite (decode_ascii c _ Hc). cbv iota beta. cbn [take_onto].
      rewrite IH; [|exact Ha|cbn in Hl; lia]. cbn [rev]. rewrite <- !app_assoc. reflexivity.
Qed.

Lemma next_esc c0 w : forallb asciib (c0 :: w) = true ->
  next_token cl (esc_b (c0 :: w)) = ({| typ := word_type (esc_b (c0 :: w)); val := esc_b (c0 :: w) |}, []).
Proof.
  intros Ha. pose proof Ha as Ha0. cbn [forallb] in Ha0. apply andb_true_iff in Ha0. destruct Ha0 as [Hc0 _]. unfold asciib in Hc0.
  pose proof (esc_length (c0 :: w)) as L.
  unfold next_token. cbn [esc_b]. destruct (wordc cl c0) eqn:W.
  - pose proof W as W'. unfold wordc in W'. apply andb_true_iff in W'. destruct W' as [_ Hw0].
    assert (Hsp : is_space (ch c0) = false).
    { destruct (is_space (ch c0)) eqn:E; [|reflexivity]. apply ws_not_alnum in E. unfold ch in E. congruence. }
    cbn [skip_space]. rewrite Hsp. rewrite (decode_ascii c0 _ Hc0). cbv iota beta. rewrite Hw0. cbn [orb].
    pose proof (lex_word_esc (c0 :: w) [] (S (List.length (c0 :: esc_b w))) Ha) as R. cbn [esc_b] in R. rewrite W in R.
    rewrite R; [reflexivity|]. cbn [esc_b] in L. rewrite W in L. cbn [List.length] in *. lia.
  - cbn [skip_space]. change (is_space (ch bs)) with false. cbv iota.
    change (decode_rune (bs :: c0 :: esc_b w)) with (Some (92%N, 1)). cbv iota beta.
    assert (A : is_alnum cl 92 = false) by (unfold is_alnum; destruct backslash_not_alnum as [-> ->]; reflexivity).
    rewrite A. cbn [orb is_wildcard is_escape N.eqb Pos.eqb].
    pose proof (lex_word_esc (c0 :: w) [] (S (List.length (bs :: c0 :: esc_b w))) Ha) as R. cbn [esc_b] in R. rewrite W in R.
    rewrite R; [reflexivity|]. cbn [esc_b] in L. rewrite W in L. cbn [List.length] in *. lia.
Qed.

Theorem lex_field_escaped c0 f d0 w :
  forallb (wordc cl) (c0 :: f) = true -> word_type (c0 :: f) = TLiteral ->
  forallb asciib (d0 :: w) = true -> word_type (esc_b (d0 :: w)) = TLiteral ->
  lex cl ((c0 :: f) ++ ":"%char :: esc_b (d0 :: w)) =
  [ {| typ := TLiteral; val := c0 :: f |}; {| typ := TColon; val := [":"%char] |};
    {| typ := TLiteral; val := esc_b (d0 :: w) |}; eof_tok ].
Proof.
  intros Hf Hty Ha Hty2. unfold lex.
  remember (List.length ((c0 :: f) ++ ":"%char :: esc_b (d0 :: w))) as n eqn:En.
  assert (Hn : 3 <= n).
  { subst n. rewrite app_length. pose proof (esc_length (d0 :: w)). cbn [List.length] in *. lia. }
  destruct n as [|[|[|n]]]; try lia.
  cbn [lex_all]. rewrite (next_word cl dq_not_alnum colon_not_alnum ws_not_alnum c0 f _ Hf). cbn [typ]. rewrite Hty.
  rewrite (next_colon cl dq_not_alnum colon_not_alnum) || rewrite (next_colon cl colon_not_alnum). cbn [typ].
  rewrite (next_esc d0 w Ha). cbn [typ]. rewrite Hty2.
  rewrite next_eof. reflexivity.
Qed.
End E.
Print Assumptions lex_field_escaped.
