(* C03: the expression PostgreSQL reads from the SQL of a tree of the filterable fragment (Spec/SqlFrag.tr, which the grammar
   theorem Proofs/SqlParse.tr_parses shows is what pg_parse returns) is true on exactly the rows on which the query is true
   (Spec/QuerySem.qsem against Spec/SqlSem.ssem): for every tree of the fragment, of any depth, and every row.
   Side conditions (side): integers below 10^30 in absolute value (every int64 is), wildcard patterns without the characters
   that are SIMILAR TO metacharacters themselves (% _ | + ( ) [ ] { } \ : known finding K11). *)
Require Import Parser ParserShape Render PgModel QuerySem SqlSem SqlFrag.
Require Import SemPattern.
Require Import Decimal.
From Coq Require Import List Ascii String ZArith QArith Bool Lia Arith.
Import ListNotations.
Close Scope Q_scope.
Open Scope string_scope.
Open Scope nat_scope.

(* ---- small facts ---- *)
Lemma sstr_str s : sstr (str s) = s.
Proof. unfold sstr, str. apply string_of_list_ascii_of_string. Qed.

Lemma opt_and_true_r x : opt_and x (Some true) = x.
Proof. destruct x as [[|]|]; reflexivity. Qed.
Lemma opt_or_false_r x : opt_or x (Some false) = x.
Proof. destruct x as [[|]|]; reflexivity. Qed.
Lemma opt_and_true_l x : opt_and (Some true) x = x.
Proof. destruct x as [[|]|]; reflexivity. Qed.
Lemma opt_and_assoc a b c : opt_and a (opt_and b c) = opt_and (opt_and a b) c.
Proof. destruct a as [[|]|], b as [[|]|], c as [[|]|]; reflexivity. Qed.
Lemma opt_or_assoc a b c : opt_or a (opt_or b c) = opt_or (opt_or a b) c.
Proof. destruct a as [[|]|], b as [[|]|], c as [[|]|]; reflexivity. Qed.

Section S.
Variable r : row.
Variable pl : list rval.   (* the values bound to placeholders: irrelevant for inline SQL, used by Proofs/SqlSemProofP.v *)

Fixpoint go_and (l : list ast) : option bool := match l with [] => Some true | x :: rest => opt_and (ssem r pl x) (go_and rest) end.
Fixpoint go_or (l : list ast) : option bool := match l with [] => Some false | x :: rest => opt_or (ssem r pl x) (go_or rest) end.
Lemma ssem_and l : ssem r pl (ABool true l) = go_and l. Proof. reflexivity. Qed.
Lemma ssem_or l : ssem r pl (ABool false l) = go_or l. Proof. reflexivity. Qed.
Lemma go_and_app xs y : go_and (xs ++ [y])%list = opt_and (go_and xs) (ssem r pl y).
Proof.
  induction xs as [|x xs IH]; cbn [app go_and].
  - rewrite opt_and_true_r, opt_and_true_l. reflexivity.
  - rewrite IH. apply opt_and_assoc.
Qed.
Lemma go_or_app xs y : go_or (xs ++ [y])%list = opt_or (go_or xs) (ssem r pl y).
Proof.
  induction xs as [|x xs IH]; cbn [app go_or].
  - rewrite opt_or_false_r. destruct (ssem r pl y) as [[|]|]; reflexivity.
  - rewrite IH. apply opt_or_assoc.
Qed.

Lemma ssem_mk_and a b : ssem r pl (mk_and a b) = opt_and (ssem r pl a) (ssem r pl b).
Proof.
  unfold mk_and. destruct a; try (rewrite ssem_and; cbn [go_and]; rewrite opt_and_true_r; reflexivity).
  destruct isand.
  - rewrite !ssem_and. apply go_and_app.
  - rewrite ssem_and. cbn [go_and]. rewrite opt_and_true_r. reflexivity.
Qed.
Lemma ssem_mk_or a b : ssem r pl (mk_or a b) = opt_or (ssem r pl a) (ssem r pl b).
Proof.
  unfold mk_or. destruct a; try (rewrite ssem_or; cbn [go_or]; rewrite opt_or_false_r; reflexivity).
  destruct isand.
  - rewrite ssem_or. cbn [go_or]. rewrite opt_or_false_r. reflexivity.
  - rewrite !ssem_or. apply go_or_app.
Qed.

(* constants *)
Lemma const_operand lf tc ac : const_sql lf = Some (tc, ac) -> const_side lf = true -> operand r pl ac = leaf_const lf.
Proof.
  destruct lf as [l op rt b fz]. destruct l; try discriminate; destruct op; try discriminate; destruct rt; try discriminate; cbn [const_sql const_side]; intros C Sd; inversion C; subst.
  - rewrite (int_operand r pl z Sd). reflexivity.
  - cbn [operand leaf_const]. rewrite sstr_str. reflexivity.
Qed.

Lemma col_operand f : operand r pl (ACol (str f)) = r f.
Proof. cbn [operand]. rewrite sstr_str. reflexivity. Qed.

Definition cmp_of_op (op : operator) : option cmpop :=
  match op with Equals => Some CEq | Greater => Some CGt | Less => Some CLt | GreaterEq => Some CGe | LessEq => Some CLe | _ => None end.

Lemma cmp_sem o c f lf tc ac : cmp_of o = Some c -> const_sql lf = Some (tc, ac) -> const_side lf = true ->
  ssem r pl (AOp (str o) (ACol (str f)) ac) = cmp_leaf r c f (VExp lf).
Proof.
  intros Ho C Sd. cbn [ssem]. rewrite sstr_str, Ho. unfold cmp2. rewrite col_operand, (const_operand lf tc ac C Sd). reflexivity.
Qed.

(* value lists *)
Fixpoint go_in (x : ast) (l : list ast) : option bool :=
  match l with [] => Some false | y :: rest => opt_or (cmp2 r pl CEq x y) (go_in x rest) end.
Lemma ssem_in x l : ssem r pl (AIn x l) = go_in x l.
Proof. induction l as [|y l IH]; [reflexivity|]. cbn [go_in]. rewrite <- IH. reflexivity. Qed.
Lemma in_sem f : forall l ts as_, consts_sql l = Some (ts, as_) -> forallb const_side l = true ->
  go_in (ACol (str f)) as_ = in_list r f l.
Proof.
  induction l as [|x l IH]; intros ts as_ C Sd; cbn [consts_sql] in C.
  - inversion C; subst. reflexivity.
  - destruct (const_sql x) as [[t a]|] eqn:Cx; [|discriminate]. destruct (consts_sql l) as [[ts' as']|] eqn:Cl; [|discriminate].
    inversion C; subst; clear C. cbn [forallb] in Sd. apply andb_true_iff in Sd. destruct Sd as [Sx Sl].
    cbn [go_in in_list]. rewrite (IH ts' as' eq_refl Sl). f_equal.
    unfold cmp2, cmp_leaf. rewrite col_operand, (const_operand x t a Cx Sx). reflexivity.
Qed.

(* patterns *)
Lemma translate_no_meta : forall p, meta_free p = true -> has_meta (translate p) = false.
Proof.
  induction p as [|c p IH]; intros H; [reflexivity|]. rewrite translate_cons. cbn [meta_free] in H.
  apply andb_true_iff in H. destruct H as [Hc Hp]. cbn [has_meta]. rewrite (IH Hp), orb_false_r.
  destruct (Ascii.eqb c "*"%char) eqn:E1; [reflexivity|]. destruct (Ascii.eqb c "?"%char) eqn:E2; [reflexivity|].
  unfold sql_meta_free in Hc. rewrite E1, E2, !orb_false_r in Hc. apply negb_true_iff in Hc. exact Hc.
Qed.
Lemma like_sem f p : pattern_side p = true ->
  ssem r pl (ASimilar (ACol (str f)) (AStr (str (translate p)))) = match r f with Some (RStr s) => Some (wild_match p s) | _ => None end.
Proof.
  unfold pattern_side. intros H. apply andb_true_iff in H. destruct H as [Hw Hm].
  cbn [ssem]. rewrite col_operand. cbn [operand]. rewrite sstr_str.
  rewrite (translate_no_meta p Hm).
  destruct (r f) as [[q|s]|]; try reflexivity. rewrite (translate_preserves_meaning p s Hw). reflexivity.
Qed.

(* ranges over integers *)
Lemma int_bound_inv v z : int_bound v = Some z -> exists b fz, v = VExp (E (VInt z) Literal VNil b fz).
Proof.
  destruct v as [ |?|?|?|?|?|e|?|? ? ?]; try discriminate. destruct e as [l op rt b fz].
  destruct l; try discriminate; destruct op; try discriminate; destruct rt; try discriminate. cbn. intros H. inversion H; subst. eauto.
Qed.
Lemma bound_sem c o f v z : cmp_of o = Some c -> int_bound v = Some z -> bound_side v = true ->
  ssem r pl (AOp (str o) (ACol (str f)) (int_ast z)) = cmp_leaf r c f v.
Proof.
  intros Ho B Sd. destruct (int_bound_inv v z B) as [b [fz ->]].
  apply (cmp_sem o c f (E (VInt z) Literal VNil b fz) (int_toks z) (int_ast z) Ho eq_refl Sd).
Qed.
Lemma int_bound_not_star v z : int_bound v = Some z -> is_star v = false.
Proof. intros B. destruct (int_bound_inv v z B) as [b [fz ->]]. reflexivity. Qed.

(* ---- the theorem ---- *)
Theorem tr_sem_sz : forall n e, esize e <= n -> forall ts a, tr e = Some (ts, a) -> side e = true -> ssem r pl a = qsem r e.
Proof.
  induction n as [|n IH]; intros e Hn ts a T Sd; [destruct e; cbn in Hn; lia|].
  destruct e as [l op rt b fz]. cbn [esize] in Hn. cbn [tr] in T.
  destruct op; try discriminate.
  - (* And *)
    destruct l as [ |?|?|?|?|?|x|?|? ? ?]; try discriminate. destruct rt as [ |?|?|?|?|?|y|?|? ? ?]; try discriminate.
    destruct (tr x) as [[tx ax]|] eqn:Tx; [|discriminate]. destruct (tr y) as [[ty ay]|] eqn:Ty; [|discriminate].
    inversion T; subst; clear T. cbn [side side_v] in Sd. apply andb_true_iff in Sd. destruct Sd as [Sx Sy]. cbn [vsize] in Hn.
    rewrite ssem_mk_and. cbn [qsem]. rewrite (IH x ltac:(lia) tx ax Tx Sx), (IH y ltac:(lia) ty ay Ty Sy). reflexivity.
  - (* Or *)
    destruct l as [ |?|?|?|?|?|x|?|? ? ?]; try discriminate. destruct rt as [ |?|?|?|?|?|y|?|? ? ?]; try discriminate.
    destruct (tr x) as [[tx ax]|] eqn:Tx; [|discriminate]. destruct (tr y) as [[ty ay]|] eqn:Ty; [|discriminate].
    inversion T; subst; clear T. cbn [side side_v] in Sd. apply andb_true_iff in Sd. destruct Sd as [Sx Sy]. cbn [vsize] in Hn.
    rewrite ssem_mk_or. cbn [qsem]. rewrite (IH x ltac:(lia) tx ax Tx Sx), (IH y ltac:(lia) ty ay Ty Sy). reflexivity.
  - (* Equals *)
    destruct (field_of l) as [f|] eqn:Fl; [|discriminate]. destruct rt as [ |?|?|?|?|?|lf|?|? ? ?]; try discriminate. cbn [cmp_text] in T.
    destruct (const_sql lf) as [[tc ac]|] eqn:C; [|discriminate]. inversion T; subst; clear T. cbn [side bound_side] in Sd.
    cbn [qsem]. rewrite Fl. apply (cmp_sem "=" CEq f lf tc ac eq_refl C Sd).
  - (* Like *)
    destruct (field_of l) as [f|] eqn:Fl; [|discriminate]. destruct rt as [ |?|?|?|?|?|p|?|? ? ?]; try discriminate. destruct p as [l2 op2 r2 b2 f2].
    destruct l2; try discriminate; destruct op2; try discriminate; destruct r2; try discriminate.
    inversion T; subst; clear T. cbn [side] in Sd. cbn [qsem]. rewrite Fl. apply like_sem. exact Sd.
  - (* Not *)
    destruct l as [ |?|?|?|?|?|x|?|? ? ?]; try discriminate. destruct rt; try discriminate.
    destruct (tr x) as [[tx ax]|] eqn:Tx; [|discriminate]. inversion T; subst; clear T. cbn [side side_v] in Sd. cbn [vsize] in Hn.
    cbn [ssem qsem]. rewrite (IH x ltac:(lia) tx ax Tx Sd). reflexivity.
  - (* Range *)
    destruct (field_of l) as [f|] eqn:Fl; [|discriminate]. destruct rt as [ |?|?|?|?|?|?|?|lo hi incl]; try discriminate. cbv zeta in T.
    cbn [side] in Sd. apply andb_true_iff in Sd. destruct Sd as [Slo Shi]. cbn [qsem]. rewrite Fl.
    destruct (int_bound lo) as [a0|] eqn:Ba; destruct (int_bound hi) as [b0|] eqn:Bb.
    + (* both bounds *)
      assert (T' : a = ABool true [AOp (str (if incl then ">=" else ">")) (ACol (str f)) (int_ast a0); AOp (str (if incl then "<=" else "<")) (ACol (str f)) (int_ast b0)])
        by (destruct (is_star lo), (is_star hi); inversion T; reflexivity).
      subst a. rewrite (int_bound_not_star lo a0 Ba), (int_bound_not_star hi b0 Bb).
      rewrite ssem_and. cbn [go_and]. rewrite opt_and_true_r.
      rewrite (bound_sem (if incl then CGe else CGt) (if incl then ">=" else ">") f lo a0 ltac:(destruct incl; reflexivity) Ba Slo).
      rewrite (bound_sem (if incl then CLe else CLt) (if incl then "<=" else "<") f hi b0 ltac:(destruct incl; reflexivity) Bb Shi). reflexivity.
    + (* open above *)
      destruct (is_star hi) eqn:Sh; [|destruct (is_star lo); discriminate].
      assert (T' : a = AOp (str (if incl then ">=" else ">")) (ACol (str f)) (int_ast a0)) by (destruct (is_star lo); inversion T; reflexivity).
      subst a. rewrite (int_bound_not_star lo a0 Ba).
      rewrite (bound_sem (if incl then CGe else CGt) (if incl then ">=" else ">") f lo a0 ltac:(destruct incl; reflexivity) Ba Slo).
      rewrite opt_and_true_r. reflexivity.
    + (* open below *)
      destruct (is_star lo) eqn:Sl; [|discriminate].
      assert (T' : a = AOp (str (if incl then "<=" else "<")) (ACol (str f)) (int_ast b0)) by (destruct (is_star hi); inversion T; reflexivity).
      subst a. rewrite (int_bound_not_star hi b0 Bb).
      rewrite (bound_sem (if incl then CLe else CLt) (if incl then "<=" else "<") f hi b0 ltac:(destruct incl; reflexivity) Bb Shi).
      rewrite opt_and_true_l. reflexivity.
    + destruct (is_star lo), (is_star hi); discriminate.
  - (* Must *)
    destruct l as [ |?|?|?|?|?|x|?|? ? ?]; try discriminate. destruct rt; try discriminate.
    cbn [side side_v] in Sd. cbn [vsize] in Hn. cbn [qsem]. apply (IH x ltac:(lia) ts a T Sd).
  - (* MustNot *)
    destruct l as [ |?|?|?|?|?|x|?|? ? ?]; try discriminate. destruct rt; try discriminate.
    destruct (tr x) as [[tx ax]|] eqn:Tx; [|discriminate]. inversion T; subst; clear T. cbn [side side_v] in Sd. cbn [vsize] in Hn.
    cbn [ssem qsem]. rewrite (IH x ltac:(lia) tx ax Tx Sd). reflexivity.
  - (* Greater *)
    destruct (field_of l) as [f|] eqn:Fl; [|discriminate]. destruct rt as [ |?|?|?|?|?|lf|?|? ? ?]; try discriminate. cbn [cmp_text] in T.
    destruct (const_sql lf) as [[tc ac]|] eqn:C; [|discriminate]. inversion T; subst; clear T. cbn [side bound_side] in Sd.
    cbn [qsem]. rewrite Fl. apply (cmp_sem ">" CGt f lf tc ac eq_refl C Sd).
  - (* Less *)
    destruct (field_of l) as [f|] eqn:Fl; [|discriminate]. destruct rt as [ |?|?|?|?|?|lf|?|? ? ?]; try discriminate. cbn [cmp_text] in T.
    destruct (const_sql lf) as [[tc ac]|] eqn:C; [|discriminate]. inversion T; subst; clear T. cbn [side bound_side] in Sd.
    cbn [qsem]. rewrite Fl. apply (cmp_sem "<" CLt f lf tc ac eq_refl C Sd).
  - (* GreaterEq *)
    destruct (field_of l) as [f|] eqn:Fl; [|discriminate]. destruct rt as [ |?|?|?|?|?|lf|?|? ? ?]; try discriminate. cbn [cmp_text] in T.
    destruct (const_sql lf) as [[tc ac]|] eqn:C; [|discriminate]. inversion T; subst; clear T. cbn [side bound_side] in Sd.
    cbn [qsem]. rewrite Fl. apply (cmp_sem ">=" CGe f lf tc ac eq_refl C Sd).
  - (* LessEq *)
    destruct (field_of l) as [f|] eqn:Fl; [|discriminate]. destruct rt as [ |?|?|?|?|?|lf|?|? ? ?]; try discriminate. cbn [cmp_text] in T.
    destruct (const_sql lf) as [[tc ac]|] eqn:C; [|discriminate]. inversion T; subst; clear T. cbn [side bound_side] in Sd.
    cbn [qsem]. rewrite Fl. apply (cmp_sem "<=" CLe f lf tc ac eq_refl C Sd).
  - (* In *)
    destruct (field_of l) as [f|] eqn:Fl; [|discriminate]. destruct rt as [ |?|?|?|?|?|p|?|? ? ?]; try discriminate. destruct p as [l2 op2 r2 b2 f2].
    destruct l2 as [ |?|?|?|?|?|?|lits|? ? ?]; try discriminate. destruct lits as [|x lits]; try discriminate.
    destruct op2; try discriminate; destruct r2; try discriminate.
    destruct (consts_sql (x :: lits)) as [[cts cas]|] eqn:C; [|discriminate]. inversion T; subst; clear T. cbn [side] in Sd.
    cbn [qsem]. rewrite Fl. rewrite ssem_in. apply (in_sem f (x :: lits) cts cas C Sd).
Qed.

Theorem tr_sem e ts a : tr e = Some (ts, a) -> side e = true -> ssem r pl a = qsem r e.
Proof. intros T Sd. apply (tr_sem_sz (esize e) e (le_n _) ts a T Sd). Qed.
End S.

(* C02: only allowed constructs *)
Lemma allowed_mk_and a b : allowed a = true -> allowed b = true -> allowed (mk_and a b) = true.
Proof.
  intros Ha Hb. destruct a as [?|?|? ?|?|ia args|?|? ? ?|? ?|? ?|? ? ?|? ?];
    try (cbn [mk_and allowed forallb]; cbn [allowed] in Ha; rewrite ?Ha, Hb; reflexivity).
  destruct ia; cbn [mk_and allowed forallb] in *; [rewrite forallb_app, Ha; cbn; rewrite Hb; reflexivity | rewrite Ha, Hb; reflexivity].
Qed.
Lemma allowed_mk_or a b : allowed a = true -> allowed b = true -> allowed (mk_or a b) = true.
Proof.
  intros Ha Hb. destruct a as [?|?|? ?|?|ia args|?|? ? ?|? ?|? ?|? ? ?|? ?];
    try (cbn [mk_or allowed forallb]; cbn [allowed] in Ha; rewrite ?Ha, Hb; reflexivity).
  destruct ia; cbn [mk_or allowed forallb] in *; [rewrite Ha, Hb; reflexivity | rewrite forallb_app, Ha; cbn; rewrite Hb; reflexivity].
Qed.

Lemma const_allowed lf tc ac : const_sql lf = Some (tc, ac) -> allowed ac = true.
Proof.
  destruct lf as [l op rt b fz]. destruct l; try discriminate; destruct op; try discriminate; destruct rt; try discriminate; cbn; intros C; inversion C; subst.
  - unfold int_ast. destruct (z <? 0)%Z; reflexivity.
  - reflexivity.
Qed.
Lemma consts_allowed : forall l ts as_, consts_sql l = Some (ts, as_) -> forallb allowed as_ = true.
Proof.
  induction l as [|x l IH]; intros ts as_ C; cbn [consts_sql] in C; [inversion C; reflexivity|].
  destruct (const_sql x) as [[t a]|] eqn:Cx; [|discriminate]. destruct (consts_sql l) as [[ts' as']|] eqn:Cl; [|discriminate].
  inversion C; subst. cbn [forallb]. rewrite (const_allowed x t a Cx), (IH ts' as' eq_refl). reflexivity.
Qed.
Lemma int_allowed z : allowed (int_ast z) = true. Proof. unfold int_ast. destruct (z <? 0)%Z; reflexivity. Qed.

Theorem tr_allowed_sz : forall n e, esize e <= n -> forall ts a, tr e = Some (ts, a) -> allowed a = true.
Proof.
  induction n as [|n IH]; intros e Hn ts a T; [destruct e; cbn in Hn; lia|].
  destruct e as [l op rt b fz]. cbn [esize] in Hn. cbn [tr] in T.
  destruct op; try discriminate.
  - destruct l as [ |?|?|?|?|?|x|?|? ? ?]; try discriminate. destruct rt as [ |?|?|?|?|?|y|?|? ? ?]; try discriminate.
    destruct (tr x) as [[tx ax]|] eqn:Tx; [|discriminate]. destruct (tr y) as [[ty ay]|] eqn:Ty; [|discriminate].
    inversion T; subst; clear T. cbn [vsize] in Hn. apply allowed_mk_and; [apply (IH x ltac:(lia) tx ax Tx)|apply (IH y ltac:(lia) ty ay Ty)].
  - destruct l as [ |?|?|?|?|?|x|?|? ? ?]; try discriminate. destruct rt as [ |?|?|?|?|?|y|?|? ? ?]; try discriminate.
    destruct (tr x) as [[tx ax]|] eqn:Tx; [|discriminate]. destruct (tr y) as [[ty ay]|] eqn:Ty; [|discriminate].
    inversion T; subst; clear T. cbn [vsize] in Hn. apply allowed_mk_or; [apply (IH x ltac:(lia) tx ax Tx)|apply (IH y ltac:(lia) ty ay Ty)].
  - destruct (field_of l); [|discriminate]. destruct rt as [ |?|?|?|?|?|lf|?|? ? ?]; try discriminate. cbn [cmp_text] in T.
    destruct (const_sql lf) as [[tc ac]|] eqn:C; [|discriminate]. inversion T; subst. cbn [allowed]. rewrite (const_allowed lf tc ac C). reflexivity.
  - destruct (field_of l); [|discriminate]. destruct rt as [ |?|?|?|?|?|p|?|? ? ?]; try discriminate. destruct p as [l2 op2 r2 b2 f2].
    destruct l2; try discriminate; destruct op2; try discriminate; destruct r2; try discriminate. inversion T; subst. reflexivity.
  - destruct l as [ |?|?|?|?|?|x|?|? ? ?]; try discriminate. destruct rt; try discriminate.
    destruct (tr x) as [[tx ax]|] eqn:Tx; [|discriminate]. inversion T; subst; clear T. cbn [vsize] in Hn. cbn [allowed]. apply (IH x ltac:(lia) tx ax Tx).
  - destruct (field_of l); [|discriminate]. destruct rt as [ |?|?|?|?|?|?|?|lo hi incl]; try discriminate. cbv zeta in T.
    destruct (int_bound lo); destruct (int_bound hi); destruct (is_star lo); destruct (is_star hi); try discriminate; inversion T; subst;
      cbn [allowed forallb]; rewrite ?int_allowed; destruct incl; reflexivity.
  - destruct l as [ |?|?|?|?|?|x|?|? ? ?]; try discriminate. destruct rt; try discriminate. cbn [vsize] in Hn. apply (IH x ltac:(lia) ts a T).
  - destruct l as [ |?|?|?|?|?|x|?|? ? ?]; try discriminate. destruct rt; try discriminate.
    destruct (tr x) as [[tx ax]|] eqn:Tx; [|discriminate]. inversion T; subst; clear T. cbn [vsize] in Hn. cbn [allowed]. apply (IH x ltac:(lia) tx ax Tx).
  - destruct (field_of l); [|discriminate]. destruct rt as [ |?|?|?|?|?|lf|?|? ? ?]; try discriminate. cbn [cmp_text] in T.
    destruct (const_sql lf) as [[tc ac]|] eqn:C; [|discriminate]. inversion T; subst. cbn [allowed]. rewrite (const_allowed lf tc ac C). reflexivity.
  - destruct (field_of l); [|discriminate]. destruct rt as [ |?|?|?|?|?|lf|?|? ? ?]; try discriminate. cbn [cmp_text] in T.
    destruct (const_sql lf) as [[tc ac]|] eqn:C; [|discriminate]. inversion T; subst. cbn [allowed]. rewrite (const_allowed lf tc ac C). reflexivity.
  - destruct (field_of l); [|discriminate]. destruct rt as [ |?|?|?|?|?|lf|?|? ? ?]; try discriminate. cbn [cmp_text] in T.
    destruct (const_sql lf) as [[tc ac]|] eqn:C; [|discriminate]. inversion T; subst. cbn [allowed]. rewrite (const_allowed lf tc ac C). reflexivity.
  - destruct (field_of l); [|discriminate]. destruct rt as [ |?|?|?|?|?|lf|?|? ? ?]; try discriminate. cbn [cmp_text] in T.
    destruct (const_sql lf) as [[tc ac]|] eqn:C; [|discriminate]. inversion T; subst. cbn [allowed]. rewrite (const_allowed lf tc ac C). reflexivity.
  - destruct (field_of l); [|discriminate]. destruct rt as [ |?|?|?|?|?|p|?|? ? ?]; try discriminate. destruct p as [l2 op2 r2 b2 f2].
    destruct l2 as [ |?|?|?|?|?|?|lits|? ? ?]; try discriminate. destruct lits as [|x lits]; try discriminate.
    destruct op2; try discriminate; destruct r2; try discriminate.
    destruct (consts_sql (x :: lits)) as [[cts cas]|] eqn:C; [|discriminate]. inversion T; subst. cbn [allowed]. apply (consts_allowed (x :: lits) cts cas C).
Qed.
Theorem tr_allowed e ts a : tr e = Some (ts, a) -> allowed a = true.
Proof. intros T. apply (tr_allowed_sz (esize e) e (le_n _) ts a T). Qed.
