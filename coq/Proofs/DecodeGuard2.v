(* Scratch: C13 — decoded + validated trees also have the shape `eok` the printers and the inline
   renderer rely on; with the theorems over `eok`/`gok` this closes "validation guards rendering" *)
Require Import Parser ParserShape Render RenderTotal RenderWfOk RenderInline RenderParamTotal RenderMarshal RenderGuard Decode DecodeShape DecodeGuard.
From Coq Require Import List Ascii String ZArith Bool Lia Arith.
Import ListNotations.

Lemma leaves_eok_all (l : list expr) : forallb Shape.is_leaf l = true ->
  (fix all (l : list expr) : bool := match l with [] => true | x :: r => eok x && all r end) l = true.
Proof.
  induction l as [|x xs IH]; cbn [forallb]; auto. intros H. apply andb_true_iff in H. destruct H as [Hx Hxs].
  rewrite (leaf_eok x Hx), (IH Hxs). reflexivity.
Qed.

Theorem dsh_validate_eok : forall n e, esize e <= n -> dsh e = true -> validate e = true -> eok e = true.
Proof.
  induction n as [|n IH]; intros e Hs D V; [destruct e; cbn in Hs; lia|].
  destruct (Shape.is_leaf e) eqn:Lf; [apply leaf_eok; exact Lf|].
  destruct e as [l op r bo fu]. cbn in Hs. cbn [dsh] in D. rewrite Lf in D. cbn [orb] in D.
  apply andb_true_iff in D. destruct D as [Dl Dr].
  cbn [validate] in V. apply andb_true_iff in V. destruct V as [Vn Vc]. apply andb_true_iff in Vc. destruct Vc as [Vl Vr].
  unfold validate_node in Vn. cbn [e_op e_left e_right] in Vn. apply andb_true_iff in Vn. destruct Vn as [NBo Vn].
  assert (VL : vok l = true).
  { destruct l as [| | | | | | a | xs |]; try discriminate.
    - cbn [vok]. apply (IH a); [cbn in Hs; lia|exact Dl|exact Vl].
    - cbn [vok]. apply leaves_eok_all. exact Dl. }
  assert (VR : vok r = true).
  { destruct r as [| | | | | | c | |mn mx incl]; try discriminate; try reflexivity.
    - cbn [vok]. apply (IH c); [cbn in Hs; lia|exact Dr|exact Vr].
    - destruct op; try (cbn in NBo; rewrite andb_false_r in NBo; discriminate).
      apply andb_true_iff in Vn. destruct Vn as [_ Vb].
      apply andb_true_iff in Vb. destruct Vb as [Vb Lmx]. apply andb_true_iff in Vb. destruct Vb as [_ Lmn].
      apply andb_true_iff in Dr. destruct Dr as [Dmn Dmx].
      destruct mn as [| | | | | | a | |]; try discriminate. destruct mx as [| | | | | | b | |]; try discriminate.
      cbn [vok]. rewrite (leaf_eok a (literal_expr_leaf a Dmn Lmn)), (leaf_eok b (literal_expr_leaf b Dmx Lmx)). reflexivity. }
  cbn [eok]. rewrite VL, VR. cbn [andb].
  destruct op; try reflexivity.
  - (* Range: a boundary on the right *) destruct r; try (rewrite !andb_false_r in Vn; discriminate). reflexivity.
  - (* List: a list on the left *) destruct l; try (rewrite !andb_false_r in Vn; discriminate); reflexivity.
Qed.

(* C13, second half: decode, Validate (with F14), then every renderer returns *)
Theorem validated_renders o o2 v e :
  decode o v = DOk e -> validate e = true ->
  (forall b, is_ret (str_e o2 b e)) /\ is_ret (render o2 e) /\ is_ret (render_param o2 e) /\ is_ret (marshal_e o2 e).
Proof.
  intros D V. pose proof (decode_dsh o v e D) as Sh.
  pose proof (dsh_validate_eok (esize e) e (le_n _) Sh V) as Ek.
  split; [intros b; exact (proj1 (str_total o2 (esize e)) e b (le_n _) Ek)|].
  split; [exact (proj1 (render_total_sz o2 (esize e)) e (le_n _) Ek)|].
  split; [exact (validated_render_param o o2 v e D V)|apply marshal_total].
Qed.
Print Assumptions validated_renders.
