"""Per-property specification of the check: theorems (Props/<id>.v), generator modes per tier, the correspondence
components whose disagreement means the property is no longer shown to hold, and the texts that go into the evidence."""

TB_COMMON = [
    'Coq 8.16.1 kernel (coqc; full .vo build, no -vos); vm_compute used for table lemmas and Examples, native_compute not used',
    'axioms: none declared; Print Assumptions of every property theorem is re-run by each check and must be "Closed under the global context" (or list section variables only)',
    'gentables (harness/cmd/gentables): translator from /repo Go sources to coq/gen/Tables.v, re-run on every check',
    'extraction: ExtrOcamlBasic + ExtrOcamlString (bool, option, unit, list, prod, sumbool, ascii->char, string->char list); one Extract Constant (List.rev => Stdlib.List.rev, same function, linear); Z, N, positive, nat stay inductive; OCaml 4.13.1',
    'correspondence check: Go observer (harness/cmd/observe, built against /repo working tree) vs extracted model in ocaml/driver; differential testing bounded by generator quality',
    'oracle record (Go strconv/unicode/fmt/encoding-json leaf behaviour) served to the model by harness/cmd/oracle: the model runs with the same standard library as the implementation',
    'the hand-written model coq/Model/*.v (lexer, parser, constructors, reducers, Validate, fmt printers, both SQL renderers, JSON encoder/decoder, generic driver)',
]

LEX = ['lex', 'lexscript']
PARSE = ['lex', 'parse', 'validate']
PRINT = ['String', 'GoString', 'Marshal']
SQL = ['Render', 'RenderParam', 'ToPostgres', 'ToParameterizedPostgres']
JSONRT = ['EncoderCst', 'Decode', "validate'", 'decoded.String', 'decoded.GoString', 'decoded.Render', 'decoded.RenderParam', 'decoded.Marshal']
UNTRUSTED = ['DecodeUntrusted', 'ValidateDecoded', 'untrusted.String', 'untrusted.GoString', 'untrusted.Render', 'untrusted.RenderParam', 'untrusted.Marshal']
CUSTOM = ['CustomRender', 'CustomRenderTrace']

COMPONENT_DOC = 'component names as used by ocaml/driver.ml'


def P(theorems, quick, thorough, components, status, rule, explanation, assumptions, level='proof', extra_tb=(), custom=False):
    return dict(theorems=theorems, modes={'quick': quick, 'thorough': thorough}, components=components, status=status, rule=rule,
                explanation=explanation, assumptions=assumptions, level=level, trusted_base=TB_COMMON + list(extra_tb), custom=custom)


PROPS = {
    'C01': P(
        ['C01_parse_total', 'C01_lexer_terminates', 'C01_renderers_total', 'C01_to_postgres_total', 'C01_to_param_postgres_total', 'C01_no_format_error', 'C01_tokens_linear', 'C01_parse_steps_linear', 'C01_parse_tree_linear'],
        [('corpus', 0), ('enum', 1500), ('rand', 5000), ('lex', 2500), ('big', 0), ('nearmiss', 0), ('inject', 2000), ('scale-list', 0), ('scale-giant', 0), ('scale-chain', 0), ('scale-prefix', 0), ('scale-layout', 0), ('scale-names', 0), ('scale-values', 0), ('scale-digits', 0), ('pairs', 0), ('optrees', 0)],
        [('corpus', 0), ('enum', 20000), ('rand', 60000), ('lex', 30000), ('big', 0), ('trees', 20000), ('inject', 30000), ('nearmiss', 0), ('scale-list', 0), ('scale-giant', 0), ('scale-chain', 0), ('scale-prefix', 0), ('scale-layout', 0), ('scale-names', 0), ('scale-values', 0), ('scale-digits', 0), ('pairs', 0), ('optrees', 0)],
        PARSE + PRINT + SQL,
        'full: parser loop total within 4n+4 steps for every token list; at most |s|+1 tokens for |s| bytes, so the loop decides every input within 4|s|+8 iterations, and the returned tree has at most 6|s|+3 nodes (a derivation over n tokens builds at most 6n-5), so one walk of the tree is linear too (in the units of the model); all five renderers and both public wrappers return on every parse result; no bad formatting verb. Wall-clock cost of fmt/encoding-json is measured (observer watchdog), not proved.',
        'token sequences exhaustively to length 3 (quick) / 4 (thorough) over a 26-symbol alphabet x {no default field, d}, random structured queries with every leaf kind, random byte strings incl. invalid UTF-8/NUL, adversarial 2k/10k-token shapes; non-trivial = accepted by Parse (all renderers then run); distinct = distinct parse trees',
        'Theorems quantify over all byte strings, default fields and oracles. The correspondence check ties the model to /repo on every run; PANIC and HANG (watchdog) are observables.',
        ['oracle record answers as Go stdlib (served by the Go helper, sampled by the run)', 'Go runtime stack exhaustion beyond ~10^5 nesting is outside the model']),
    'C02': P(
        ['C02_string_value_stays_in_its_literal', 'C02_field_name_is_one_identifier', 'C02_fragment_sql_is_one_confined_expression', 'C02_rendered_fragment_sql_is_one_confined_expression', 'C02_fragment_columns_and_constants_come_from_the_query', 'C02_rendered_parameterized_sql_is_one_confined_expression'],
        [('corpus', 0), ('rand', 5000), ('quote', 2500), ('inject', 2500), ('scale-list', 0), ('scale-names', 0), ('scale-values', 0), ('scale-digits', 0), ('pairs', 0)],
        [('corpus', 0), ('rand', 60000), ('quote', 30000), ('inject', 30000), ('enum', 5000), ('scale-list', 0), ('scale-names', 0), ('scale-values', 0), ('scale-digits', 0), ('pairs', 0)],
        PARSE + SQL + ['SqlToks'],
        'partial: proved at scanner level (a string value is read back by the PostgreSQL scanner model as one constant equal to the value, for all byte strings; a field name as one quoted identifier) and at grammar level for the filterable fragment (for every tree of the fragment, any depth: the token sequence of its SQL - Spec/SqlFrag.tr, compared per case with the scanner model on the implementation text - is accepted by the PostgreSQL expression grammar as one expression built from allowed constructs only; and end to end: whenever the model Render returns a text for such a tree, scanner and grammar model read it as that one expression, whose column references are field names of the query and whose string constants are string values of the query). The same end to end for the parameterized renderer: whenever RenderParam returns a text for a fragment tree, the scanner and grammar models read it (placeholders numbered) as one expression of allowed constructs whose columns are field names of the query and which holds no constant at all. Outside the fragment (floats, string ranges, regular expressions) the clause is decided by running the PostgreSQL model (coq/Model/PgModel.v, extracted) on every SQL text the implementation returns.',
        'every SQL text ToPostgres/ToParameterizedPostgres returns on generated queries (hostile field names and values: quotes, backslashes, semicolons, comment openers, NUL, invalid UTF-8, NaN/Inf, >63-byte names); non-trivial = rendering succeeded and the text was read by the PostgreSQL model',
        'C02_check: pg_read(sql) must succeed, be built from allowed nodes only, every column must be a field/default field of the query and every string constant a (translated) value of the query.',
        ['PgModel is a conservative model of scan.l/gram.y validated one-directionally against pg_query in design; not re-validated at run time']),
    'C03': P(
        ['C03_pattern_translation_preserves_meaning', 'C03_grammar_reads_the_query_structure', 'C03_sql_true_on_exactly_the_rows_of_the_query', 'C03_rendered_sql_is_true_on_exactly_the_rows_of_the_query', 'C03_fragment_renders_and_selects_exactly_the_rows_of_the_query', 'C03_query_text_to_rows', 'C03_sql_templates_are_read_from_the_source'],
        [('corpus', 0), ('sem', 1700), ('sem', 1700), ('sem', 1700), ('rand', 2000), ('scale-list', 0), ('scale-digits', 0), ('scale-values', 0), ('scale-names', 0), ('pairs', 0)],
        [('corpus', 0), ('sem', 20000), ('sem', 20000), ('sem', 20000), ('sem', 20000), ('rand', 20000), ('scale-list', 0), ('scale-digits', 0), ('scale-values', 0), ('scale-names', 0), ('pairs', 0)],
        PARSE + ['Render', 'ToPostgres', 'SqlToks'],
        'proved for the fragment with integer and string constants (Spec/SqlFrag.tr): for every tree (AND, OR, NOT, +, - over equality, comparisons, integer ranges with every inclusivity and open ends, value lists, wildcard patterns; any depth) PostgreSQL grammar reads from the SQL token sequence exactly the same Boolean combination of the same leaf predicates, and that expression is true on exactly the rows on which the query is true, for every row (numbers compare numerically - the decimal text of an integer denotes it - strings as strings, patterns by the translation theorem). And end to end on the model: whenever the model Render returns a text s for such a tree (field names of at most 63 bytes, range integers within int64, patterns not of the /.../ form), the PostgreSQL scanner and grammar models read from s exactly that expression (Proofs/SqlText: Render text = btxt; Proofs/SqlLex: pg_lex btxt = tr tokens; one lemma per token kind of scan.l that occurs). The same token sequence is also compared per case with the scanner model on the implementation text. Render succeeds on the fragment when the literal function accepts every leaf text (valid UTF-8 per the oracle, no NUL); and from the query TEXT: for a query printed from a specification tree (C05) whose parse is in the fragment, ToPostgres returns a text from which PostgreSQL reads an expression true on exactly the rows of the query. Not proved: floats (their text comes from strconv: oracle), string ranges (K1, K2); that ToPostgres = Parse then Render is the Api model, tied by the correspondence. Those and everything else are decided by the executable semantics: the meaning of the query text (Spec/QuerySem.qsem on the model parse) against the meaning of the SQL text as the PostgreSQL model reads it (Spec/SqlSem.ssem on PgModel.pg_read), on probe rows hitting every region cut out by the query constants.',
        'fragment trees (equality, comparisons, ranges with every bound kind x inclusivity, value lists, patterns, AND/OR/NOT/+/-, parentheses, juxtaposition), each evaluated on up to 300 probe rows (all constants, +-1, all pairwise midpoints; strings: each constant, just above, just below, pattern instances and near misses); non-trivial = rendered and read back by the PostgreSQL model',
        'C03_check evaluates qsem on the model parse against ssem on pg_read of the implementation SQL on probe rows; check_sqltoks compares the scanner model on the SQL text with SqlFrag.tr of the returned tree',
        ['PostgreSQL reading of the SQL text is the PgModel one; string order is byte order on both sides']),
    'C04': P(
        ['C04_placeholders_match_parameters', 'C04_parameters_are_the_values', 'C04_parameterized_sql_selects_the_rows_of_the_query', 'C04_substituted_parameters_equivalent_to_inline', 'C04_parameterized_text_read_by_postgres', 'C04_all_values_travel_as_parameters', 'C04_query_text_to_parameterized_rows', 'C04_sql_text_independent_of_values', 'C04_render_param_returns'],
        [('corpus', 0), ('rand', 4000), ('subst', 1500), ('quote', 1000), ('sem', 2500), ('scale-list', 0), ('scale-giant', 0), ('scale-digits', 0), ('pairs', 0)],
        [('corpus', 0), ('rand', 60000), ('subst', 20000), ('quote', 20000), ('sem', 40000), ('scale-list', 0), ('scale-giant', 0), ('scale-digits', 0), ('pairs', 0)],
        PARSE + SQL + ['SqlToks', 'SqlToksP'],
        'partial: clause (a) placeholder count = parameter count proved for every tree of parser shape outside K13; clause (b) parameters = the values in left-to-right order with their Go kinds proved for every tree of parser shape; clause (d) same-kind trees render the same parameterized text proved for every tree of any shape; clause (c) proved for the fragment with integer and string constants (Spec/SqlFragP.trp): PostgreSQL grammar reads from the parameterized token sequence an expression that, with the returned parameters bound, is true on exactly the rows of the query, hence equivalent to the inline expression, for every tree of any depth and every row (token sequence and parameter list tied to the implementation per case: correspondence SqlToksP), and end to end on the model: whenever RenderParam returns (text, parameters) the parameters are those of trp and the scanner and grammar models read that expression from the text with its placeholders numbered; the parameterized expression holds no constant at all (every value travels as a parameter); the same from the query text for printed trees; RenderParam total. Outside that fragment (floats, string ranges, K-classes) clause (c) is decided by C04_check on probe rows.',
        'random structured queries, same-kind value substitutions (pairs), quoted/escaped values; non-trivial = both renderers succeeded',
        'C04_check on (inline, parameterized) observation pairs and on substitution pairs.',
        ['oracle fact: ParseFloat rejects a text starting with a quote']),
    'C05': P(
        ['C05_print_parse_roundtrip', 'C05_printed_tree_parses_to_itself', 'C05_printed_text_parses_to_the_tree', 'C05_value_list'],
        [('corpus', 0), ('trees', 8000), ('scale-list', 0), ('scale-chain', 0), ('scale-prefix', 0), ('optrees', 0), ('pairs', 0)],
        [('corpus', 0), ('trees', 120000), ('enum', 5000), ('scale-list', 0), ('scale-chain', 0), ('scale-prefix', 0), ('optrees', 0), ('pairs', 0)],
        PARSE,
        'full: for every spec tree (any depth) with parentheses wherever the table requires them (and anywhere else) the parser loop accepts exactly the expected tree, Validate accepts it, and - for text of any bytes whose printed tokens are returned unchanged by the lexer when a blank follows (LexWsG.lexes_clean: words in any script, phrases with any bytes) - Parse of the printed text returns it. The lexer step is also checked per case by the driver (generator printer = Spec.pr through the model lexer).',
        'random spec trees to depth 3 (quick) / 5 (thorough), minimal and redundant parenthesisation, three spacing styles; the driver checks generator printer = Spec.pr and implementation tree = Spec.want',
        'precedence enters only through prec = index in the generated toktype_order.',
        []),
    'C06': P(
        ['C06_accepted_tree_is_a_derivation'],
        [('corpus', 0), ('enum', 1500), ('rand', 5000), ('lex', 1500), ('nearmiss', 0), ('scale-list', 0), ('scale-chain', 0), ('scale-names', 0), ('pairs', 0), ('optrees', 0)],
        [('corpus', 0), ('enum', 30000), ('rand', 80000), ('lex', 20000), ('nearmiss', 0), ('scale-list', 0), ('scale-chain', 0), ('scale-names', 0), ('pairs', 0), ('optrees', 0)],
        PARSE,
        'full: every accepted token list is laid over by its tree as a derivation (Lay), for all token lists.',
        'all token sequences to length 3/4 over 26 symbols x default field, random structured and damaged queries; non-trivial = accepted',
        'C06_check re-derives the token sequence from the returned tree (leaves in order with typed values, operator counts).',
        []),
    'C07': P(
        ['C07_juxtaposition_is_and', 'C07_same_parse', 'C07_same_parse_of_text', 'C07_local_step'],
        [('corpus', 0), ('juxt', 2000), ('scale-chain', 0), ('scale-prefix', 0), ('optrees', 0)],
        [('corpus', 0), ('juxt', 40000), ('enum', 5000), ('scale-chain', 0), ('scale-prefix', 0), ('optrees', 0)],
        PARSE,
        'full: for all contexts pre, post and term tokens t1 t2, `pre t1 t2 post` and `pre t1 AND t2 post` give the same result - as final state of the parser loop, as result of parse_toks (loop + Validate), and as result of Parse on query text of any bytes (tokens that lex to themselves when a blank follows).',
        'pairs (all AND written / some AND nodes juxtaposed) of printed random trees, and pairs over arbitrary token sequences with two adjacent terminals; non-trivial = pair accepted',
        '', []),
    'C08': P(
        ['C08_quoted_value_is_one_token', 'C08_quoted_value_tree', 'C08_quoted_value_inline_sql', 'C08_quoted_value_parameter', 'C08_sql_constant_decodes_to_the_value', 'C08_escaped_value_is_one_token', 'C08_escaped_value_tree', 'C08_escaped_spelling_loses_only_its_backslashes', 'C08_escaped_spelling_adds_no_wildcard', 'C08_quoted_value_reaches_postgres_verbatim', 'C08_escaped_value_reaches_postgres_verbatim', 'C08_value_travels_as_parameter_verbatim', 'C08_quoted_text_to_rows', 'C08_quoted_text_to_parameter', 'C08_escaped_text_to_rows', 'C08_escaped_value_is_one_token_any_script', 'C08_escaped_spelling_any_script_loses_only_its_backslashes', 'C08_escaped_spelling_any_script_adds_no_wildcard', 'C08_escaped_spelling_any_script_is_the_ascii_one_on_ascii', 'C08_escaped_text_to_rows_any_script', 'C08_escaped_text_to_parameter_any_script', 'C08_escaped_bare_word_is_the_plain_value_any_script'],
        [('corpus', 0), ('quote', 6000), ('scale-values', 0)],
        [('corpus', 0), ('quote', 100000), ('scale-values', 0)],
        PARSE + SQL,
        'quoting clause proved link by link for all texts w without a double quote: bytes -> tokens (lexer), tokens -> tree (parser loop + Validate: EQUALS(column, literal w)), tree -> inline SQL text (column = constant with doubled quotes) and -> parameter list ([w]), SQL constant -> value (PostgreSQL scanner model reads it back as w). The links are closed into end-to-end theorems with one quoting function on both sides: from the tokens, and from the query TEXT f:"w" handed to ToPostgres / ToParameterizedPostgres (lexer, parser, Validate, renderer, PostgreSQL scanner and grammar models), the comparison of column f with the constant w - resp. with parameter 1 bound to w - arrives and is true on exactly the rows of the query, for every byte string w without a double quote. Escaping clause, ASCII: the same end to end from the text f:esc(w); the escaped spelling (a backslash before every byte that is not a letter, digit or underscore) of any text is one Literal token carrying exactly those bytes; a Literal token whose text loses its backslashes to w, holds no star or question mark and does not read as a number gives EQUALS(column, literal w), w plain; the escaped spelling of a w without backslash, star and question mark meets those premises (with them it is known finding K7). Escaping clause, ANY script and any bytes (valid UTF-8 or not): the rune-level escaped spelling (a backslash before every rune, as the Go decoder cuts the text, that is not a letter, digit or underscore; an invalid byte is a rune of its own) is one Literal token carrying exactly those bytes, loses exactly its backslashes, adds no wildcard, coincides with the byte-level spelling on ASCII, and from the query text f:esc(w) ToPostgres delivers w verbatim as the string constant and ToParameterizedPostgres as the only parameter, and Parse of the bare word esc(w) alone is the plain string leaf w (oracle fact added: U+FFFD is no letter or digit). Texts that read as numbers, and texts holding a backslash, star or question mark (K7), are decided by C08_check per case.',
        'random texts over an alphabet of operators, keywords, digits, wildcards, slashes, backslashes, whitespace, quotes, non-ASCII; quoted and escaped spellings; on every escaped case the generator spelling is compared with the extracted Spec/Escape.esc (the function of the any-script theorems) under the oracle classes',
        '', ['oracle facts: double quote, colon and the four whitespace runes are not letters or digits']),
    'C09': P(
        ['C09_keyword_case', 'C09_whitespace_same_tokens', 'C09_whitespace_same_parse', 'C09_redundant_parentheses', 'C09_redundant_parentheses_same_parse', 'C09_whitespace_same_tokens_any_bytes', 'C09_whitespace_same_parse_any_bytes', 'C09_token_independent_of_what_follows', 'C09_keyword_case_same_parse', 'C09_keyword_case_same_parse_of_text', 'C09_keyword_case_same_parse_from_the_text', 'C09_keyword_spelling_lexes_alone'],
        [('corpus', 0), ('layout', 1500), ('scale-layout', 0), ('scale-chain', 0), ('nearmiss', 0)],
        [('corpus', 0), ('layout', 30000), ('enum', 5000), ('scale-layout', 0), ('scale-chain', 0), ('nearmiss', 0)],
        PARSE,
        'whitespace clause proved for ALL byte strings, valid UTF-8 or not (any change of the whitespace between and around tokens that removes no existing separator gives the same token stream, hence the same parse result; words ending in a dangling escape excluded = K14); keyword case: the token type of a word is invariant under ASCII letter case, and the parser reads only the type of a token that is not a term (two token lists agreeing in all types and in the texts of term tokens have the same outcome, tree or rejection: step-for-step simulation through all 12 reducers), and from the query TEXT: respelling operator tokens that stand between whitespace (a keyword in another letter case lexes alone as one token of the same type) leaves the result of Parse unchanged, for texts of any bytes; redundant parentheses: two printed trees differing only in parenthesis nodes parse (parser loop + Validate) to the same tree. The general theorem rests on a context theorem for one Next(): the decoder looks at most three bytes past a token and only to find a truncated sequence not continued; whitespace and the first byte of a proper token are never continuation bytes (oracle fact: U+FFFD is neither letter nor digit). Not proved: parentheses in arbitrary accepted token sequences that are not printed trees (K15 lives there); decided by C09_check on variant pairs.',
        'variant pairs (whitespace fillings incl. tabs/newlines/none, keyword case, redundant parentheses) of random trees and of arbitrary token sequences',
        '', []),
    'C10': P(
        ['C10_parse_all_or_nothing', 'C10_returned_tree_wellformed', 'C10_to_postgres_shape', 'C10_to_param_postgres_shape'],
        [('corpus', 0), ('enum', 1500), ('rand', 5000), ('lex', 1500), ('nearmiss', 0), ('inject', 1500), ('scale-list', 0), ('scale-giant', 0), ('scale-digits', 0), ('pairs', 0), ('optrees', 0)],
        [('corpus', 0), ('enum', 30000), ('rand', 80000), ('lex', 20000), ('inject', 20000), ('scale-list', 0), ('scale-giant', 0), ('scale-digits', 0), ('pairs', 0), ('optrees', 0)],
        PARSE + ['ToPostgres', 'ToParameterizedPostgres'],
        'full: Parse returns a tree xor an error; every returned tree passes Validate and the independent shape predicate; ToPostgres/ToParameterizedPostgres result shapes.',
        'token sequences, random and damaged queries, random bytes, hostile texts (NUL, invalid UTF-8, quotes) inside quoted values and field names; non-trivial = accepted',
        '', ['oracle fact: %v of a float64 is non-empty']),
    'C11': P(
        ['C11_default_field_scopes_bare_terms', 'C11_parse_with_default_field'],
        [('corpus', 0), ('dfield', 4000), ('scale-names', 0), ('pairs', 0)],
        [('corpus', 0), ('dfield', 60000), ('enum', 5000), ('scale-names', 0), ('pairs', 0)],
        PARSE,
        'full: for every input string whose terms do not denote f, Parse with the default field f = Parse without it followed by scope f (same acceptance, exactly the scoped tree); scope f touches bare operands only.',
        'pairs (without / with a default field that does not occur in the query) of random trees and token sequences, field names needing quoting',
        '', []),
    'C12': P(
        ['C12_encode_returns', 'C12_decode_encode_roundtrip', 'C12_atoi_itoa', 'C12_int_leaf_roundtrip', 'C12_string_leaf_roundtrip', 'C12_operator_names_roundtrip', 'C12_operator_names_total', 'C12_decoder_uses_from_string', 'C12_parse_result_round_trips_with_all_observables'],
        [('corpus', 0), ('rand', 6000), ('trees', 2000), ('scale-digits', 0), ('scale-values', 0), ('scale-list', 0), ('scale-names', 0), ('pairs', 0)],
        [('corpus', 0), ('rand', 80000), ('trees', 30000), ('scale-digits', 0), ('scale-values', 0), ('scale-list', 0), ('scale-names', 0), ('pairs', 0)],
        PARSE + ['Marshal'] + JSONRT,
        'encoder total; operator names round-trip; decode(encode e) = e proved for every tree of the parser shape whose leaves have the kind the decoder infers (Spec/Inferable.ki_b) under three stated facts about encoding/json, strconv and the textual boundary heuristic on the encoder own output; the syntax tree of the encoder output (Spec/Cst.v) is compared with the implementation bytes per case; and in the words of the property for every Parse result of that kind: the decoded expression validates, re-encodes to the same bytes, prints and renders identically, being the original expression. Decided per accepted query by C12_check: the clauses for trees outside ki_b (identical bytes / print / SQL after the round trip when leaf kinds change: quoted patterns, integer-valued floats = K12) and that Parse results which are not listed exceptions satisfy ki_b.',
        'every accepted generated query is encoded, decoded, re-encoded and re-rendered; non-trivial = accepted and encoded',
        '', ['oracle fact: ParseFloat rejects a text starting with a double quote']),
    'C13': P(
        ['C13_decode_never_panics', 'C13_decode_fuel_free', 'C13_validated_renders'],
        [('json', 6000), ('scale-names', 0), ('scale-values', 0)],
        [('json', 100000), ('scale-names', 0), ('scale-values', 0)],
        UNTRUSTED,
        'full over well-formed JSON: decoder never panics for any syntax tree; decoded and validated trees never panic any renderer. Bytes that are not JSON never reach the library (encoding/json checks validity first): exercised, not proved.',
        'encoder output, mutated documents (case/escape variant keys, swapped operators, nulls, wrong types), random documents over the schema, non-JSON bytes; non-trivial = decoded and validated',
        '', []),
    'C14': P(
        [],
        [], [],
        PARSE + PRINT + SQL,
        'partial (level other): sequential behaviour is a function of the arguments by construction of the model + correspondence; absence of package-level writes is a syntactic check of gentables; data races and mutation of shared expressions are probed under the race detector, not proved.',
        'N goroutines over shared and private expressions, results compared with a sequential run, deep snapshots before/after',
        'runtime behaviour (memory model, slice aliasing) is outside any Gallina model',
        ['Go race detector'], level='other', custom=True),
    'C15': P(
        ['C15_missing_function_fails', 'C15_traced_fold_is_render', 'C15_calls_are_the_nodes_in_postorder', 'C15_override_is_local', 'C15_postgres_render_is_the_fold', 'C15_postgres_table_is_the_generated_one', 'C15_fuzzy_boost_unsupported', 'C15_to_postgres_rejects_fuzzy_boost'],
        [('corpus', 0), ('custom', 5000), ('rand', 3000), ('nearmiss', 0), ('scale-list', 0), ('scale-chain', 0), ('pairs', 0)],
        [('corpus', 0), ('custom', 80000), ('rand', 30000), ('nearmiss', 0), ('scale-list', 0), ('scale-chain', 0), ('pairs', 0)],
        ['parse'] + CUSTOM + ['ToPostgres', 'ToParameterizedPostgres'],
        'full on the model: for every table of functions Render is the traced fold (calls = nodes in post-order, each once, children before parent, left before right), a missing function anywhere makes it fail, an override is invisible where its operator does not occur; the postgres Render is that fold with the generated table, which has no function for FUZZY/BOOST, so both SQL entry points fail on every tree containing one. The Go Render is tied to render_tr by tracing functions (output and call log compared per case) and by the driver-isolation scenario.',
        'random trees x function tables (all tracing, one operator removed, one overridden, both); non-trivial = tree rendered or correctly refused',
        '', []),
    'C16': P(
        ['C16_next_token_lossless', 'C16_stream_is_a_segmentation', 'C16_finitely_many_tokens', 'C16_lexical_error_rejects', 'C16_peek_is_next', 'C16_eof_forever', 'C16_backup_undoes_next', 'C16_lexer_positions_are_aligned', 'C16_backup_returns_the_rune_of_a_valid_step'],
        [('lex', 8000), ('corpus', 0), ('scale-layout', 0), ('scale-values', 0), ('pairs', 0)],
        [('lex', 150000), ('corpus', 0), ('scale-layout', 0), ('scale-values', 0), ('pairs', 0)],
        LEX + ['parse'],
        'full: lossless segmentation, termination, error stops, error rejects, Peek = next read in every reachable state, EOF forever after the end or an error, all for every rune classification. The Lexer-object model (lstate/lnext/lpeek) is tied to lex.go by Next/Peek scripts. The model has no backup(): it does not consume what it peeks at; that next(); backup() of the implementation returns to the same position is proved against a model of utf8.DecodeLastRuneInString (as the Go source has it) for every input, valid UTF-8 or not, at every position the forward decoder reaches from the start.',
        'byte strings over an alphabet with multi-byte runes, invalid UTF-8, NUL, every delimiter, with Next/Peek scripts; non-trivial = stream reached EOF or an error',
        '', []),
}
