(* C09 — Layout does not change meaning.  (keyword case and redundant parentheses; the whitespace clause is decided per case) *)
Require Import Parser Printer.
Require Lex.
Require Import ParserRoundTrip ParserParens.
Require LexCase LexWs.
Require Import Api.
From Coq Require Import List String.
Import ListNotations.

(* the token type of a word (AND / OR / NOT / TO / literal) is the same for any two words that agree up to ASCII letter case *)
Theorem C09_keyword_case : forall w w' : Lex.bytes,
  map Lex.upper_ascii w = map Lex.upper_ascii w' -> Lex.word_type w = Lex.word_type w'.
Proof. exact LexCase.word_type_case. Qed.

(* two printed trees (each with parentheses at least where the table requires them) that differ only in parenthesis nodes
   - around the whole query, around any operand, around a field's value - parse to one and the same tree *)
Theorem C09_redundant_parentheses : forall (o : oracle) (t t' : qt), wfq o t -> wfq o t' -> strip t = strip t' ->
  exists e k k', steps o k (mk [] [start] (pr t ++ [eof])) = Accept e /\ steps o k' (mk [] [start] (pr t' ++ [eof])) = Accept e.
Proof. exact same_modulo_parens. Qed.

Theorem C09_redundant_parentheses_same_parse : forall (o : oracle) (t t' : qt), wfq o t -> wfq o t' -> strip t = strip t' ->
  parse_toks o "" (pr t ++ [eof]) = parse_toks o "" (pr t' ++ [eof]) /\ parse_toks o "" (pr t ++ [eof]) = PTree (want o t).
Proof. exact same_parse_modulo_parens. Qed.

(* whitespace, for ASCII inputs: LexWs.wsvar cl s s' says s' is s with the whitespace (space, tab, CR, LF) between and around
   its tokens changed - a separator may grow, shrink, change its bytes, or appear where there was none; an existing one is
   never removed entirely; a word ending in a dangling escape is excluded (known finding K14); what follows a lexical error is
   unchanged. Then the token streams are equal, hence Parse gives the same tree or fails on both.
   Oracle fact: the four whitespace runes are not letters or digits. Non-ASCII input: decided per case by C09_check. *)
Theorem C09_whitespace_same_tokens : forall cl : Lex.classes, (forall r, Lex.is_space r = true -> Lex.is_alnum cl r = false) ->
  forall s s' : Lex.bytes, LexWs.wsvar cl s s' -> LexWs.asc s -> LexWs.asc s' -> Lex.lex cl s' = Lex.lex cl s.
Proof. exact LexWs.lex_ws. Qed.

Theorem C09_whitespace_same_parse : forall (o : oracle) (cl : Lex.classes), (forall r, Lex.is_space r = true -> Lex.is_alnum cl r = false) ->
  forall (df s s' : string), LexWs.wsvar cl (list_ascii_of_string s) (list_ascii_of_string s') ->
  LexWs.asc (list_ascii_of_string s) -> LexWs.asc (list_ascii_of_string s') -> Api.parse o cl df s' = Api.parse o cl df s.
Proof.
  intros o cl Hws df s s' W A A'. unfold Api.parse, Api.lex_tokens. rewrite (LexWs.lex_ws cl Hws _ _ W A A'). reflexivity.
Qed.

Print Assumptions C09_keyword_case.
Print Assumptions C09_whitespace_same_tokens.
Print Assumptions C09_whitespace_same_parse.
Print Assumptions C09_redundant_parentheses_same_parse.
Print Assumptions C09_redundant_parentheses.
