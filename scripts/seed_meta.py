#!/usr/bin/env python3
"""seed_meta.py <round> <tag> : write meta.json for every confirmed seeded change /verif/seeded/Cxx_<tag>mN that has none yet
(title and trigger from the author's notes.md, files from the patch)."""
import json, os, re, sys
rnd, tag = int(sys.argv[1]), sys.argv[2]
S = '/verif/seeded'
for d in sorted(os.listdir(S)):
    m = re.match(r'(C\d\d)_%sm\d$' % tag, d)
    p = os.path.join(S, d)
    if not m or os.path.exists(os.path.join(p, 'meta.json')):
        continue
    notes = open(os.path.join(p, 'notes.md')).read() if os.path.exists(os.path.join(p, 'notes.md')) else ''
    lines = [l.strip() for l in notes.split('\n') if l.strip()]
    title = lines[0].lstrip('# ') if lines else d
    trig = ''
    for i, l in enumerate(lines):
        if re.search(r'trigger|manifest|only when|needs', l, re.I):
            trig = ' '.join(lines[i:i + 3])[:700]
            break
    files = re.findall(r'^diff --git a/(\S+)', open(os.path.join(p, 'patch.diff')).read(), re.M)
    demo = [f for f in os.listdir(p) if f.endswith('.go')]
    json.dump({
        'id': d, 'property': m.group(1), 'round': rnd, 'title': title[:300], 'files_changed': files,
        'needs_to_manifest': trig,
        'author': 'independent sub-agent given only the property text and a scratch worktree (round %d: asked for faults that are hard to find)' % rnd,
        'confirmed_by': ['git apply --check patch.diff on a clean worktree of /repo HEAD',
                         'with the patch: go build ./... && go test -count=1 ./... (root) && cd fuzz && go test -count=1 ./...  -> all pass',
                         'demo copied to %s : go test fails with the patch (exit 1), passes without it (exit 0)' % open(os.path.join(p, 'demo_dir.txt')).read().strip()],
        'demo': {'file': demo[0] if demo else '', 'copy_to': open(os.path.join(p, 'demo_dir.txt')).read().strip()},
    }, open(os.path.join(p, 'meta.json'), 'w'), indent=1)
    print('wrote', d)
