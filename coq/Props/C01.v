(* C01 — Parsing and rendering are total: no panic, no hang, no garbled output.
   Statements only; every proof is `exact` of a lemma from Proofs/. *)
Require Import Parser Render Api Shape.
Require Lex.
Require Import ParserTotal ParserShape2 RenderTotal RenderWfOk RenderInline RenderParamTotal RenderMarshal.
Require LexFuel LexProof Cost TreeSize ParserShape LexWs SqlQueryText.

From Coq Require Import List String.
Import ListNotations.

(* Parse: for every oracle (Go's strconv/unicode answers), every rune classification, every default field and every
   byte string, the parser model neither reaches one of its panic sites nor exhausts its fuel 4n+4 (n = number of tokens):
   at most 4n+4 iterations of the parser loop. *)
Theorem C01_parse_total : forall (o : oracle) (cl : Lex.classes) (df s : string),
  match Api.parse o cl df s with PPanic _ => False | POutOfFuel => False | _ => True end.
Proof. intros o cl df s. exact (parse_total o df (Api.lex_tokens cl s)). Qed.

(* the token list itself: one call of Next per token, at most |s|+1 of them, fuel never the reason for an outcome *)
Theorem C01_lexer_terminates : forall (cl : Lex.classes) (s : Lex.bytes) (k : nat),
  Lex.lex cl s = Lex.lex_all cl (S (List.length s) + k) s.
Proof. exact LexFuel.lex_fuel_free. Qed.

(* String(), %#v, Render, RenderParam, MarshalJSON return (a value or an error) on every tree Parse returns *)
Theorem C01_renderers_total : forall (o : oracle) (o2 : oracle2) (cl : Lex.classes) (df s : string) (e : expr),
  Api.parse o cl df s = PTree e ->
  (forall verbose, is_ret (str_e o2 verbose e)) /\ is_ret (render o2 e) /\ is_ret (render_param o2 e) /\ is_ret (marshal_e o2 e).
Proof.
  intros o o2 cl df s e H. destruct (parse_wf o df _ e H) as [W _].
  exact (conj (fun b => printers_total o2 e true b W)
        (conj (render_total o2 e true W) (conj (render_param_total o2 e W) (marshal_total o2 e)))).
Qed.

(* the public wrappers *)
Theorem C01_to_postgres_total : forall o o2 cl df s, is_ret (Api.to_postgres o o2 cl df s).
Proof.
  intros o o2 cl df s. unfold Api.to_postgres.
  pose proof (C01_parse_total o cl df s) as T. destruct (Api.parse o cl df s) eqn:P; try contradiction.
  - exact (proj1 (proj2 (C01_renderers_total o o2 cl df s e P))).
  - eexists; reflexivity.
Qed.
Theorem C01_to_param_postgres_total : forall o o2 cl df s, is_ret (Api.to_param_postgres o o2 cl df s).
Proof.
  intros o o2 cl df s. unfold Api.to_param_postgres.
  pose proof (C01_parse_total o cl df s) as T. destruct (Api.parse o cl df s) eqn:P; try contradiction.
  - exact (proj1 (proj2 (proj2 (C01_renderers_total o o2 cl df s e P)))).
  - eexists; reflexivity.
Qed.

(* no formatting verb of String()/GoString() is ever applied to a value of the wrong kind (the "%!" event) *)
Theorem C01_no_format_error : forall (o : oracle) (o2 : oracle2) (cl : Lex.classes) (df s : string) (e : expr) verbose t,
  Api.parse o cl df s = PTree e -> str_e o2 verbose e = Ret t -> bad t = false.
Proof.
  intros o o2 cl df s e b t H. destruct (parse_wf o df _ e H) as [W _]. exact (string_no_bad_verb o2 e b t W).
Qed.

(* the cost clause in the units of the model: at most |s|+1 tokens (one Next each) for an input of |s| bytes, and the
   shift-reduce loop, given 4|s|+8 iterations, decides every such input - and decides it exactly as Parse does. Linear in
   the input length; what one iteration and one Next cost in Go is measured by the observer (watchdog), not proved. *)
Theorem C01_tokens_linear : forall (cl : Lex.classes) (s : string), List.length (Api.lex_tokens cl s) <= S (String.length s).
Proof. exact Cost.tokens_linear. Qed.

Theorem C01_parse_steps_linear : forall (o : oracle) (cl : Lex.classes) (df s : string),
  let c0 := {| rs := []; ns := [start]; toks := Api.lex_tokens cl s; pend := None |} in
  run o (4 * String.length s + 8) df c0 <> POutOfFuel /\
  Api.parse o cl df s = match run o (4 * String.length s + 8) df c0 with PTree e => if validate e then PTree e else PErr | r => r end.
Proof. exact Cost.parse_steps_linear. Qed.

(* ... and the tree Parse returns has at most 6|s|+3 nodes (ParserShape.esize counts expression, list and range-boundary
   nodes): every accepted tree is a derivation over its tokens (C06), a derivation over n tokens builds at most 6n-5 nodes.
   So whatever walks the tree once - Validate, String(), %#v, both renderers, the encoder - does linear work in these units. *)
Theorem C01_parse_tree_linear : forall (o : oracle) (cl : Lex.classes) (df s : string) (e : expr),
  Api.parse o cl df s = PTree e -> ParserShape.esize e <= 6 * String.length s + 3.
Proof. exact TreeSize.parse_tree_linear. Qed.

(* the bounds are not vacuous: a query of 11 bytes, 6 tokens + EOF, a tree of 11 nodes under a default field *)
Example c01_cost_example :
  let s := "a b OR c:d*"%string in
  List.length (Api.lex_tokens LexWs.cl_ascii s) = 7 /\
  exists e, Api.parse SqlQueryText.o_ex LexWs.cl_ascii "t" s = PTree e /\ ParserShape.esize e = 11.
Proof. vm_compute. split; [reflexivity|eexists; split; reflexivity]. Qed.

Print Assumptions C01_parse_total.
Print Assumptions C01_lexer_terminates.
Print Assumptions C01_renderers_total.
Print Assumptions C01_to_postgres_total.
Print Assumptions C01_to_param_postgres_total.
Print Assumptions C01_no_format_error.
Print Assumptions C01_tokens_linear.
Print Assumptions C01_parse_steps_linear.
Print Assumptions C01_parse_tree_linear.
