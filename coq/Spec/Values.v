(* C04 (b) specification: the values of a query tree in left-to-right order, as they must travel in the parameter list:
   columns are not values, an unbounded range end (a lone star) is not a value, a pattern matched with LIKE is translated
   (star to percent, question mark to underscore) unless it is a /regexp/, every other leaf value keeps its Go kind. *)
Require Import Parser Render.
From Coq Require Import List Ascii String ZArith Bool.
Import ListNotations.
Open Scope string_scope.

Definition translate_pattern (p : string) : string :=
  if is_regex_text p then p else replace_char "?"%char "_" (replace_char "*"%char "%" p).

Fixpoint vals_e (e : expr) {struct e} : list value :=
  match e with
  | E l op r _ _ =>
      (vals_v l ++
      match op, r with
      | Like, VExp (E (VStr p) _ VNil _ _) => [VStr (translate_pattern p)]
      | _, _ => vals_v r
      end)%list
  end
with vals_v (v : value) {struct v} : list value :=
  match v with
  | VNil | VCol _ => []
  | VStr s => if String.eqb s "*" then [] else [v]
  | VExp e => vals_e e
  | VList l => (fix each (l : list expr) : list value := match l with [] => [] | x :: rest => (vals_e x ++ each rest)%list end) l
  | VBound a b _ => (vals_v a ++ vals_v b)%list
  | _ => [v]
  end.
