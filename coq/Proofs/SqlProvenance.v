(* C02, provenance, for the filterable fragment: in the expression PostgreSQL reads from the SQL of a fragment tree
   (Spec/SqlFrag.tr) every column reference is a field name of the query and every string constant is a string value of the
   query (a wildcard pattern after the fixed translation): no part of a value or field name becomes anything else. *)
Require Import Parser ParserShape Render PgModel QuerySem SqlSem SqlFrag.
From Coq Require Import List Ascii String ZArith Bool Lia Arith.
Import ListNotations.

(* column references and string constants of an SQL expression *)
Fixpoint cols_of (a : ast) : list bytes :=
  match a with
  | ACol c => [c]
  | ABool _ l => flat_map cols_of l
  | ANot x | AUnary _ x => cols_of x
  | AOp _ x y | ASimilar x y => cols_of x ++ cols_of y
  | ABetween x lo hi => cols_of x ++ cols_of lo ++ cols_of hi
  | AIn x l => cols_of x ++ flat_map cols_of l
  | _ => []
  end.
Fixpoint strs_of (a : ast) : list bytes :=
  match a with
  | AStr s => [s]
  | ABool _ l => flat_map strs_of l
  | ANot x | AUnary _ x => strs_of x
  | AOp _ x y | ASimilar x y => strs_of x ++ strs_of y
  | ABetween x lo hi => strs_of x ++ strs_of lo ++ strs_of hi
  | AIn x l => strs_of x ++ flat_map strs_of l
  | _ => []
  end.

(* field names and string values of a query tree *)
Fixpoint fields_of (e : Parser.expr) : list string :=
  match e with
  | E l op rt _ _ => fields_v l ++ fields_v rt
  end
with fields_v (v : value) : list string :=
  match v with
  | VCol f => [f]
  | VExp e => fields_of e
  | VList l => flat_map fields_of l
  | VBound a b _ => fields_v a ++ fields_v b
  | _ => []
  end.
Fixpoint strvals_of (e : Parser.expr) : list string :=
  match e with
  | E l op rt _ _ =>
    match op, l with
    | Wild, VStr p => [translate p]
    | _, _ => strvals_v l ++ strvals_v rt
    end
  end
with strvals_v (v : value) : list string :=
  match v with
  | VStr s => [s]
  | VExp e => strvals_of e
  | VList l => flat_map strvals_of l
  | VBound a b _ => strvals_v a ++ strvals_v b
  | _ => []
  end.

Lemma cols_mk_and a b c : In c (cols_of (mk_and a b)) <-> In c (cols_of a) \/ In c (cols_of b).
Proof.
  unfold mk_and. destruct a as [?|?|? ?|?|ia args|?|? ? ?|? ?|? ?|? ? ?|? ?]; try destruct ia;
    cbn [cols_of flat_map]; rewrite ?flat_map_app; cbn [flat_map]; rewrite ?app_nil_r, ?in_app_iff; cbn [In]; tauto.
Qed.
Lemma cols_mk_or a b c : In c (cols_of (mk_or a b)) <-> In c (cols_of a) \/ In c (cols_of b).
Proof.
  unfold mk_or. destruct a as [?|?|? ?|?|ia args|?|? ? ?|? ?|? ?|? ? ?|? ?]; try destruct ia;
    cbn [cols_of flat_map]; rewrite ?flat_map_app; cbn [flat_map]; rewrite ?app_nil_r, ?in_app_iff; cbn [In]; tauto.
Qed.
Lemma strs_mk_and a b c : In c (strs_of (mk_and a b)) <-> In c (strs_of a) \/ In c (strs_of b).
Proof.
  unfold mk_and. destruct a as [?|?|? ?|?|ia args|?|? ? ?|? ?|? ?|? ? ?|? ?]; try destruct ia;
    cbn [strs_of flat_map]; rewrite ?flat_map_app; cbn [flat_map]; rewrite ?app_nil_r, ?in_app_iff; cbn [In]; tauto.
Qed.
Lemma strs_mk_or a b c : In c (strs_of (mk_or a b)) <-> In c (strs_of a) \/ In c (strs_of b).
Proof.
  unfold mk_or. destruct a as [?|?|? ?|?|ia args|?|? ? ?|? ?|? ?|? ? ?|? ?]; try destruct ia;
    cbn [strs_of flat_map]; rewrite ?flat_map_app; cbn [flat_map]; rewrite ?app_nil_r, ?in_app_iff; cbn [In]; tauto.
Qed.

Lemma field_of_fields l f : field_of l = Some f -> fields_v l = [f].
Proof.
  destruct l as [ |?|?|?|?|?|e|?|? ? ?]; try discriminate. destruct e as [l2 op2 r2 b2 f2].
  destruct l2; try discriminate; destruct op2; try discriminate; destruct r2; try discriminate. cbn. intros H. inversion H. reflexivity.
Qed.

Lemma const_prov lf tc ac : const_sql lf = Some (tc, ac) ->
  cols_of ac = [] /\ (forall s, In s (strs_of ac) -> exists v, In v (strvals_of lf) /\ s = str v).
Proof.
  destruct lf as [l op rt b fz]. destruct l; try discriminate; destruct op; try discriminate; destruct rt; try discriminate; cbn [const_sql]; intros C; inversion C; subst.
  - unfold int_ast. destruct (z <? 0)%Z; (split; [reflexivity|intros s0 []]).
  - split; [reflexivity|]. cbn. intros s0 [<-|[]]. exists s. split; [left; reflexivity|reflexivity].
Qed.

Lemma consts_prov : forall l ts as_, consts_sql l = Some (ts, as_) ->
  flat_map cols_of as_ = [] /\ (forall s, In s (flat_map strs_of as_) -> exists v, In v (flat_map strvals_of l) /\ s = str v).
Proof.
  induction l as [|x l IH]; intros ts as_ C; cbn [consts_sql] in C.
  - inversion C; subst. split; [reflexivity|intros s []].
  - destruct (const_sql x) as [[t a]|] eqn:Cx; [|discriminate]. destruct (consts_sql l) as [[ts' as']|] eqn:Cl; [|discriminate].
    inversion C; subst. destruct (const_prov x t a Cx) as [C1 C2]. destruct (IH ts' as' eq_refl) as [I1 I2].
    cbn [flat_map]. rewrite C1, I1. split; [reflexivity|]. intros s H. apply in_app_iff in H. destruct H as [H|H].
    + destruct (C2 s H) as [v [Hv Eq0]]. exists v. split; [apply in_app_iff; left; exact Hv|exact Eq0].
    + destruct (I2 s H) as [v [Hv Eq0]]. exists v. split; [apply in_app_iff; right; exact Hv|exact Eq0].
Qed.

Definition P_cols (e : Parser.expr) (a : ast) : Prop := forall c, In c (cols_of a) -> exists f, In f (fields_of e) /\ c = str f.
Definition P_strs (e : Parser.expr) (a : ast) : Prop := forall s, In s (strs_of a) -> exists v, In v (strvals_of e) /\ s = str v.

Lemma cmp_prov l op rt b fz f lf tc ac o : field_of l = Some f -> rt = VExp lf -> const_sql lf = Some (tc, ac) ->
  (match op with Wild => False | _ => True end) ->
  P_cols (E l op rt b fz) (AOp o (ACol (str f)) ac) /\ P_strs (E l op rt b fz) (AOp o (ACol (str f)) ac).
Proof.
  intros Fl -> C Hop. destruct (const_prov lf tc ac C) as [C1 C2]. split.
  - intros c H. cbn [cols_of] in H. rewrite C1, app_nil_r in H. destruct H as [<-|[]]. exists f. split; [|reflexivity].
    cbn [fields_of]. rewrite (field_of_fields l f Fl). left. reflexivity.
  - intros s H. cbn [strs_of app] in H. destruct (C2 s H) as [v [Hv Eq0]]. exists v. split; [|exact Eq0].
    assert (X : strvals_of (E l op (VExp lf) b fz) = strvals_v l ++ strvals_of lf).
    { cbn [strvals_of strvals_v]. destruct op; try reflexivity. contradiction. }
    rewrite X. apply in_app_iff. right. exact Hv.
Qed.

Theorem tr_provenance_sz : forall n e, esize e <= n -> forall ts a, tr e = Some (ts, a) -> P_cols e a /\ P_strs e a.
Proof.
  induction n as [|n IH]; intros e Hn ts a T; [destruct e; cbn in Hn; lia|].
  destruct e as [l op rt b fz]. cbn [esize] in Hn. cbn [tr] in T.
  destruct op; try discriminate.
  - (* And *)
    destruct l as [ |?|?|?|?|?|x|?|? ? ?]; try discriminate. destruct rt as [ |?|?|?|?|?|y|?|? ? ?]; try discriminate.
    destruct (tr x) as [[tx ax]|] eqn:Tx; [|discriminate]. destruct (tr y) as [[ty ay]|] eqn:Ty; [|discriminate].
    inversion T; subst; clear T. cbn [vsize] in Hn.
    destruct (IH x ltac:(lia) tx ax Tx) as [Cx Sx]. destruct (IH y ltac:(lia) ty ay Ty) as [Cy Sy]. split.
    + intros c H. apply cols_mk_and in H. cbn [fields_of fields_v]. destruct H as [H|H]; [destruct (Cx c H) as [f [Hf Eq0]]|destruct (Cy c H) as [f [Hf Eq0]]];
        exists f; (split; [apply in_app_iff; auto|exact Eq0]).
    + intros s H. apply strs_mk_and in H. cbn [strvals_of strvals_v]. destruct H as [H|H]; [destruct (Sx s H) as [v [Hv Eq0]]|destruct (Sy s H) as [v [Hv Eq0]]];
        exists v; (split; [apply in_app_iff; auto|exact Eq0]).
  - (* Or *)
    destruct l as [ |?|?|?|?|?|x|?|? ? ?]; try discriminate. destruct rt as [ |?|?|?|?|?|y|?|? ? ?]; try discriminate.
    destruct (tr x) as [[tx ax]|] eqn:Tx; [|discriminate]. destruct (tr y) as [[ty ay]|] eqn:Ty; [|discriminate].
    inversion T; subst; clear T. cbn [vsize] in Hn.
    destruct (IH x ltac:(lia) tx ax Tx) as [Cx Sx]. destruct (IH y ltac:(lia) ty ay Ty) as [Cy Sy]. split.
    + intros c H. apply cols_mk_or in H. cbn [fields_of fields_v]. destruct H as [H|H]; [destruct (Cx c H) as [f [Hf Eq0]]|destruct (Cy c H) as [f [Hf Eq0]]];
        exists f; (split; [apply in_app_iff; auto|exact Eq0]).
    + intros s H. apply strs_mk_or in H. cbn [strvals_of strvals_v]. destruct H as [H|H]; [destruct (Sx s H) as [v [Hv Eq0]]|destruct (Sy s H) as [v [Hv Eq0]]];
        exists v; (split; [apply in_app_iff; auto|exact Eq0]).
  - (* Equals *)
    destruct (field_of l) as [f|] eqn:Fl; [|discriminate]. destruct rt as [ |?|?|?|?|?|lf|?|? ? ?]; try discriminate. cbn [cmp_text] in T.
    destruct (const_sql lf) as [[tc ac]|] eqn:C; [|discriminate]. inversion T; subst. apply (cmp_prov l Equals (VExp lf) b fz f lf tc ac _ Fl eq_refl C I).
  - (* Like *)
    destruct (field_of l) as [f|] eqn:Fl; [|discriminate]. destruct rt as [ |?|?|?|?|?|p|?|? ? ?]; try discriminate. destruct p as [l2 op2 r2 b2 f2].
    destruct l2; try discriminate; destruct op2; try discriminate; destruct r2; try discriminate. inversion T; subst; clear T. split.
    + intros c H. cbn [cols_of app] in H. destruct H as [<-|[]]. exists f. split; [|reflexivity]. cbn [fields_of]. rewrite (field_of_fields l f Fl). left. reflexivity.
    + intros s0 H. cbn [strs_of app] in H. destruct H as [<-|[]]. exists (translate s). split; [|reflexivity].
      cbn [strvals_of strvals_v]. apply in_app_iff. right. left. reflexivity.
  - (* Not *)
    destruct l as [ |?|?|?|?|?|x|?|? ? ?]; try discriminate. destruct rt; try discriminate.
    destruct (tr x) as [[tx ax]|] eqn:Tx; [|discriminate]. inversion T; subst; clear T. cbn [vsize] in Hn.
    destruct (IH x ltac:(lia) tx ax Tx) as [Cx Sx]. split.
    + intros c H. cbn [cols_of] in H. destruct (Cx c H) as [f [Hf Eq0]]. exists f. split; [cbn [fields_of fields_v]; rewrite app_nil_r; exact Hf|exact Eq0].
    + intros s H. cbn [strs_of] in H. destruct (Sx s H) as [v [Hv Eq0]]. exists v. split; [cbn [strvals_of strvals_v]; rewrite app_nil_r; exact Hv|exact Eq0].
  - (* Range *)
    destruct (field_of l) as [f|] eqn:Fl; [|discriminate]. destruct rt as [ |?|?|?|?|?|?|?|lo hi incl]; try discriminate. cbv zeta in T.
    assert (Fin : In f (fields_of (E l Range (VBound lo hi incl) b fz))) by (cbn [fields_of]; rewrite (field_of_fields l f Fl); left; reflexivity).
    destruct (int_bound lo); destruct (int_bound hi); destruct (is_star lo); destruct (is_star hi); try discriminate; inversion T; subst; clear T;
      (split; [intros c H; cbn [cols_of flat_map app] in H; unfold int_ast in H; repeat (destruct (_ <? 0)%Z in H); cbn [cols_of app In] in H;
                 repeat (destruct H as [<-|H]; [exists f; split; [exact Fin|reflexivity]|]); contradiction
              |intros s H; cbn [strs_of flat_map app] in H; unfold int_ast in H; repeat (destruct (_ <? 0)%Z in H); cbn [strs_of app In] in H; contradiction]).
  - (* Must *)
    destruct l as [ |?|?|?|?|?|x|?|? ? ?]; try discriminate. destruct rt; try discriminate. cbn [vsize] in Hn.
    destruct (IH x ltac:(lia) ts a T) as [Cx Sx]. split.
    + intros c H. destruct (Cx c H) as [f [Hf Eq0]]. exists f. split; [cbn [fields_of fields_v]; rewrite app_nil_r; exact Hf|exact Eq0].
    + intros s H. destruct (Sx s H) as [v [Hv Eq0]]. exists v. split; [cbn [strvals_of strvals_v]; rewrite app_nil_r; exact Hv|exact Eq0].
  - (* MustNot *)
    destruct l as [ |?|?|?|?|?|x|?|? ? ?]; try discriminate. destruct rt; try discriminate.
    destruct (tr x) as [[tx ax]|] eqn:Tx; [|discriminate]. inversion T; subst; clear T. cbn [vsize] in Hn.
    destruct (IH x ltac:(lia) tx ax Tx) as [Cx Sx]. split.
    + intros c H. cbn [cols_of] in H. destruct (Cx c H) as [f [Hf Eq0]]. exists f. split; [cbn [fields_of fields_v]; rewrite app_nil_r; exact Hf|exact Eq0].
    + intros s H. cbn [strs_of] in H. destruct (Sx s H) as [v [Hv Eq0]]. exists v. split; [cbn [strvals_of strvals_v]; rewrite app_nil_r; exact Hv|exact Eq0].
  - destruct (field_of l) as [f|] eqn:Fl; [|discriminate]. destruct rt as [ |?|?|?|?|?|lf|?|? ? ?]; try discriminate. cbn [cmp_text] in T.
    destruct (const_sql lf) as [[tc ac]|] eqn:C; [|discriminate]. inversion T; subst. apply (cmp_prov l Greater (VExp lf) b fz f lf tc ac _ Fl eq_refl C I).
  - destruct (field_of l) as [f|] eqn:Fl; [|discriminate]. destruct rt as [ |?|?|?|?|?|lf|?|? ? ?]; try discriminate. cbn [cmp_text] in T.
    destruct (const_sql lf) as [[tc ac]|] eqn:C; [|discriminate]. inversion T; subst. apply (cmp_prov l Less (VExp lf) b fz f lf tc ac _ Fl eq_refl C I).
  - destruct (field_of l) as [f|] eqn:Fl; [|discriminate]. destruct rt as [ |?|?|?|?|?|lf|?|? ? ?]; try discriminate. cbn [cmp_text] in T.
    destruct (const_sql lf) as [[tc ac]|] eqn:C; [|discriminate]. inversion T; subst. apply (cmp_prov l GreaterEq (VExp lf) b fz f lf tc ac _ Fl eq_refl C I).
  - destruct (field_of l) as [f|] eqn:Fl; [|discriminate]. destruct rt as [ |?|?|?|?|?|lf|?|? ? ?]; try discriminate. cbn [cmp_text] in T.
    destruct (const_sql lf) as [[tc ac]|] eqn:C; [|discriminate]. inversion T; subst. apply (cmp_prov l LessEq (VExp lf) b fz f lf tc ac _ Fl eq_refl C I).
  - (* In *)
    destruct (field_of l) as [f|] eqn:Fl; [|discriminate]. destruct rt as [ |?|?|?|?|?|p|?|? ? ?]; try discriminate. destruct p as [l2 op2 r2 b2 f2].
    destruct l2 as [ |?|?|?|?|?|?|lits|? ? ?]; try discriminate. destruct lits as [|x lits]; try discriminate.
    destruct op2; try discriminate; destruct r2; try discriminate.
    destruct (consts_sql (x :: lits)) as [[cts cas]|] eqn:C; [|discriminate]. inversion T; subst; clear T.
    destruct (consts_prov (x :: lits) cts cas C) as [C1 C2]. split.
    + intros c H. cbn [cols_of] in H. rewrite C1, app_nil_r in H. destruct H as [<-|[]]. exists f. split; [|reflexivity].
      cbn [fields_of]. rewrite (field_of_fields l f Fl). left. reflexivity.
    + intros s H. cbn [strs_of app] in H. destruct (C2 s H) as [v [Hv Eq0]]. exists v. split; [|exact Eq0].
      cbn [strvals_of strvals_v]. apply in_app_iff. right. rewrite app_nil_r. exact Hv.
Qed.

Theorem tr_provenance e ts a : tr e = Some (ts, a) ->
  (forall c, In c (cols_of a) -> exists f, In f (fields_of e) /\ c = str f) /\
  (forall s, In s (strs_of a) -> exists v, In v (strvals_of e) /\ s = str v).
Proof. intros T. apply (tr_provenance_sz (esize e) e (le_n _) ts a T). Qed.
