(* Scratch: integer printing and parsing round-trip — strconv.Atoi (strconv.Itoa z) = z on int64,
   as used by C12 (JSON numbers), C02/C03 (numeric constants) and rang's Atoi probing *)
Require Import Parser Render.
From Coq Require Import List Ascii String ZArith Bool Lia.
Import ListNotations.
Open Scope Z_scope.

Lemma digit_val_char m : 0 <= m < 10 -> digit_val (ascii_of_nat (48 + Z.to_nat m)) = Some m.
Proof.
  intros H. assert (E : m = 0 \/ m = 1 \/ m = 2 \/ m = 3 \/ m = 4 \/ m = 5 \/ m = 6 \/ m = 7 \/ m = 8 \/ m = 9) by lia.
  repeat (destruct E as [-> | E]; [reflexivity|]). subst. reflexivity.
Qed.

(* the most significant digit comes first: parsing the printed digits in front of t continues from v*10^k + n *)
Lemma z_digits_parse : forall f n t, (1 <= f)%nat -> 0 <= n < 10 ^ Z.of_nat f ->
  exists k, forall v, digits (z_digits f n t) v = digits t (v * 10 ^ k + n) /\ 0 <= k.
Proof.
  induction f as [|f IH]; intros n t Hf Hn; [lia|].
  cbn [z_digits].
  assert (Hm : 0 <= n mod 10 < 10) by (apply Z.mod_pos_bound; lia).
  destruct (n / 10 =? 0) eqn:E.
  - apply Z.eqb_eq in E. exists 1. intros v. cbn [digits]. rewrite (digit_val_char _ Hm).
    split; [|lia]. f_equal. pose proof (Z.div_mod n 10 ltac:(lia)). lia.
  - apply Z.eqb_neq in E.
    assert (Hf' : (1 <= f)%nat).
    { destruct f; [|lia]. exfalso. apply E. apply Z.div_small. change (10 ^ Z.of_nat 1) with 10 in Hn. lia. }
    assert (Hn' : 0 <= n / 10 < 10 ^ Z.of_nat f).
    { split; [apply Z.div_pos; lia|]. apply Z.div_lt_upper_bound; [lia|].
      replace (Z.of_nat (S f)) with (Z.of_nat f + 1) in Hn by lia. rewrite Z.pow_add_r in Hn by lia. lia. }
    destruct (IH (n / 10) (String (ascii_of_nat (48 + Z.to_nat (n mod 10))) t) Hf' Hn') as [k Hk].
    exists (k + 1). intros v. destruct (Hk v) as [Hk1 Hk2]. rewrite Hk1. cbn [digits]. rewrite (digit_val_char _ Hm).
    split; [|lia]. f_equal. rewrite Z.pow_add_r by lia. pose proof (Z.div_mod n 10 ltac:(lia)). lia.
Qed.

(* the printed text starts with a digit *)
Lemma z_digits_head : forall f n t, (1 <= f)%nat -> 0 <= n ->
  exists m r, 0 <= m < 10 /\ z_digits f n t = String (ascii_of_nat (48 + Z.to_nat m)) r.
Proof.
  induction f as [|f IH]; intros n t Hf Hn; [lia|].
  cbn [z_digits]. assert (Hm : 0 <= n mod 10 < 10) by (apply Z.mod_pos_bound; lia).
  destruct (n / 10 =? 0) eqn:E; [eexists _, _; split; [exact Hm|reflexivity]|].
  apply Z.eqb_neq in E. destruct f as [|f]; [cbn [z_digits]; eexists _, _; split; [exact Hm|reflexivity]|].
  apply IH; [lia|apply Z.div_pos; lia].
Qed.

Lemma pow30 : 10 ^ Z.of_nat 30 = 1000000000000000000000000000000.
Proof. reflexivity. Qed.

Theorem atoi_itoa z : -9223372036854775808 <= z <= 9223372036854775807 -> atoi (z_to_string z) = Some z.
Proof.
  intros Hz. unfold z_to_string. destruct (z <? 0) eqn:Neg.
  - apply Z.ltb_lt in Neg. cbn [append].
    assert (Hn : 0 <= - z < 10 ^ Z.of_nat 30) by (rewrite pow30; lia).
    destruct (z_digits_parse 30 (- z) "" ltac:(lia) Hn) as [k Hk].
    destruct (z_digits_head 30 (- z) "" ltac:(lia) ltac:(lia)) as [m [r [Hm Er]]].
    unfold atoi. rewrite Er. rewrite <- Er. destruct (Hk 0) as [Hd _]. rewrite Hd. cbn [digits].
    replace (0 * 10 ^ k + - z) with (- z) by lia. rewrite Z.opp_involutive.
    destruct (_ && _) eqn:R; [reflexivity|]. apply andb_false_iff in R. destruct R as [R|R]; [apply Z.leb_gt in R|apply Z.leb_gt in R]; lia.
  - apply Z.ltb_ge in Neg.
    assert (Hn : 0 <= z < 10 ^ Z.of_nat 30) by (rewrite pow30; lia).
    destruct (z_digits_parse 30 z "" ltac:(lia) Hn) as [k Hk].
    destruct (z_digits_head 30 z "" ltac:(lia) Neg) as [m [r [Hm Er]]].
    assert (A : atoi (z_digits 30 z "") = match digits (z_digits 30 z "") 0 with
                  | Some v => if (-9223372036854775808 <=? v) && (v <=? 9223372036854775807) then Some v else None
                  | None => None end).
    { rewrite Er.
      assert (E : m = 0 \/ m = 1 \/ m = 2 \/ m = 3 \/ m = 4 \/ m = 5 \/ m = 6 \/ m = 7 \/ m = 8 \/ m = 9) by lia.
      repeat (destruct E as [-> | E]; [reflexivity|]). subst. reflexivity. }
    rewrite A. destruct (Hk 0) as [Hd _]. rewrite Hd. cbn [digits]. replace (0 * 10 ^ k + z) with z by lia.
    destruct (_ && _) eqn:R; [reflexivity|]. apply andb_false_iff in R. destruct R as [R|R]; [apply Z.leb_gt in R|apply Z.leb_gt in R]; lia.
Qed.
Print Assumptions atoi_itoa.
