(* C02 — Rendered SQL is one confined boolean expression; user text only in literals.  (scanner-level lemmas; see DESIGN 6/C02) *)
Require Import Parser Render PgModel SqlFrag.
Require PgQuote PgIdent SqlParse SqlSemProof SqlEndToEnd SqlProvenance.
Require Import SqlFragP.
Require SqlLexP SqlEndToEndP SqlProvenanceP SqlConfinedP.
From Coq Require Import ZArith.
From Coq Require Import List String Ascii.
Import ListNotations.

(* a string value can never leave its literal: the PostgreSQL scanner model reads ' + doubled(v) + ' as ONE string constant
   equal to v, for every byte string v (quotes, backslashes, semicolons, comment openers, NUL, invalid UTF-8) *)
Theorem C02_string_value_stays_in_its_literal : forall (v : bytes) (rest : list ascii),
  match rest with [] => True | c :: _ => Ascii.eqb c "'"%char = false end -> has_newline rest = false ->
  next ("'"%char :: PgQuote.double v ++ "'"%char :: rest) = Some (TStr v, rest).
Proof. exact PgQuote.sq_roundtrip. Qed.

(* a field name without a double quote is ONE quoted identifier (truncated to 63 bytes by PostgreSQL: known finding K9) *)
Theorem C02_field_name_is_one_identifier : forall (c0 : ascii) (v rest : list ascii),
  forallb (fun c => negb (Ascii.eqb c """"%char)) (c0 :: v) = true ->
  match rest with [] => True | c :: _ => Ascii.eqb c """"%char = false end ->
  next (""""%char :: (c0 :: v) ++ """"%char :: rest) = Some (TIdent (truncate_ident (c0 :: v)), rest).
Proof. exact PgIdent.ident_roundtrip. Qed.

(* grammar level, for every tree of the filterable fragment (Spec/SqlFrag.tr; any depth): the token sequence of its SQL is
   accepted by PostgreSQL's expression grammar as ONE expression, and that expression is built only from AND/OR/NOT,
   comparisons, IN, SIMILAR TO, column references and constants (SqlFrag.allowed: no unary or arithmetic operator, no other
   node kind; comments, separators and sub-selects are not tokens the scanner model lets through) *)
Theorem C02_fragment_sql_is_one_confined_expression : forall (e : Parser.expr) (ts : list tok) (a : ast),
  tr e = Some (ts, a) -> pg_parse ts = Some a /\ allowed a = true.
Proof. intros e ts a T. split; [exact (SqlParse.tr_parses e ts a T)|exact (SqlSemProof.tr_allowed e ts a T)]. Qed.

(* and on the model's renderer, end to end: whenever Render returns a text for a tree of the fragment (field names of at most 63
   bytes), PostgreSQL's scanner and grammar models read that text as ONE expression built from allowed constructs only *)
Theorem C02_rendered_fragment_sql_is_one_confined_expression :
  forall (o2 : oracle2) (e : Parser.expr) (ts : list tok) (a : ast) (s : string),
  tr e = Some (ts, a) -> text_ok e = true -> names_ok e = true -> render o2 e = Ret (s, None) ->
  pg_read (str s) = Some a /\ allowed a = true.
Proof.
  intros o2 e ts a s T Ok Nm R. split; [exact (SqlEndToEnd.render_reads o2 e ts a s T Ok Nm R)|exact (SqlSemProof.tr_allowed e ts a T)].
Qed.

(* provenance, for every tree of the fragment: in the expression PostgreSQL reads, every column reference is a field name of the
   query and every string constant is a string value of the query (a wildcard pattern after the fixed translation) *)
Theorem C02_fragment_columns_and_constants_come_from_the_query : forall (e : Parser.expr) (ts : list tok) (a : ast),
  tr e = Some (ts, a) ->
  (forall c, In c (SqlProvenance.cols_of a) -> exists f, In f (SqlProvenance.fields_of e) /\ c = str f) /\
  (forall s, In s (SqlProvenance.strs_of a) -> exists v, In v (SqlProvenance.strvals_of e) /\ s = str v).
Proof. exact SqlProvenance.tr_provenance. Qed.


(* the parameterized rendering, end to end on the model: whenever RenderParam returns a text for a tree of the fragment, PostgreSQL's
   scanner and grammar models read that text (placeholders numbered as a client library does) as ONE expression, built from the
   allowed constructs only, whose column references are field names of the query and which holds NO constant at all - no byte of
   any value of the query is in the text *)
Theorem C02_rendered_parameterized_sql_is_one_confined_expression :
  forall (o2 : oracle2) (e : Parser.expr) (ts : list tok) (a : ast) (ps ps' : list value) (s : string),
  trp e 1 = Some (ts, a, ps) -> names_ok e = true -> (Z.of_nat (1 + SqlLexP.pcount e) < 1000000000)%Z ->
  render_param o2 e = Ret (s, ps', None) ->
  pg_read (number_placeholders (str s)) = Some a /\ allowed a = true /\
  (forall c, In c (SqlProvenance.cols_of a) -> exists f, In f (SqlProvenance.fields_of e) /\ c = str f) /\
  SqlProvenanceP.consts_of a = [].
Proof.
  intros o2 e ts a ps ps' s T Nm Hk R. split; [exact (proj2 (SqlEndToEndP.render_param_reads o2 e ts a ps s ps' T Nm Hk R))|].
  destruct (SqlConfinedP.trp_confined e ts a ps T) as [Al Co]. split; [exact Al|]. split; [exact Co|].
  exact (proj1 (SqlProvenanceP.trp_no_constants e ts a ps T)).
Qed.

Print Assumptions C02_string_value_stays_in_its_literal.
Print Assumptions C02_fragment_columns_and_constants_come_from_the_query.
Print Assumptions C02_rendered_fragment_sql_is_one_confined_expression.
Print Assumptions C02_fragment_sql_is_one_confined_expression.
Print Assumptions C02_field_name_is_one_identifier.
Print Assumptions C02_rendered_parameterized_sql_is_one_confined_expression.
