package main

import (
	"strconv"
	"strings"
)

// ---- relations between the parts of one query ----------------------------------------------------------------------
// Two operands that are each unremarkable but related: the same value twice, the same text once bare and once quoted, two
// words that differ only in letter case, a lower and an upper comparison on one field, a number and its neighbour, a value
// and its prefix. variant(t) is a copy of t in which one leaf is changed that way; genTree and semTree use it for the right
// operand of some AND / OR nodes.

func clone(t *qt) *qt {
	c := &qt{kind: t.kind, toks: append([]string{}, t.toks...), num: t.num, numPar: t.numPar}
	for _, k := range t.kids {
		c.kids = append(c.kids, clone(k))
	}
	return c
}

func leavesOf(t *qt, acc *[]*qt) {
	switch t.kind {
	case "term", "fv", "cmp", "range":
		*acc = append(*acc, t)
	}
	for _, k := range t.kids {
		leavesOf(k, acc)
	}
}

func isKeywordWord(w string) bool {
	switch strings.ToUpper(w) {
	case "AND", "OR", "NOT", "TO", "":
		return true
	}
	return false
}

// a word related to w; "" when no safe relative exists
func varyWord(w string) string {
	if w == "*" || w == "" {
		return w
	}
	if n, err := strconv.ParseInt(w, 10, 64); err == nil && n > -1000000 && n < 1000000 {
		return strconv.FormatInt(n+int64(pick3(1, -1, 4)), 10)
	}
	if strings.HasPrefix(w, `"`) && strings.HasSuffix(w, `"`) && len(w) >= 2 {
		inner := w[1 : len(w)-1]
		switch rng.Intn(4) {
		case 0: // the same text bare, when it is one plain word
			ok := inner != ""
			for _, c := range inner {
				if !(c == '_' || c >= '0' && c <= '9' || c >= 'a' && c <= 'z' || c >= 'A' && c <= 'Z') {
					ok = false
				}
			}
			if ok && !isKeywordWord(inner) {
				return inner
			}
		case 1:
			if s := swapCase(inner); s != inner {
				return `"` + s + `"`
			}
		case 2:
			if i := strings.Index(inner, " "); i >= 0 {
				return `"` + inner[:i] + " " + inner[i:] + `"`
			}
		}
		return w
	}
	if strings.ContainsAny(w, `\/"'`) {
		return w
	}
	switch rng.Intn(5) {
	case 0:
		if !strings.ContainsAny(w, "*?") {
			return `"` + w + `"`
		}
	case 1:
		if s := swapCase(w); s != w && !isKeywordWord(s) {
			return s
		}
	case 2:
		return w + "x"
	case 3:
		if len(w) > 1 && w[len(w)-1] < 128 && w[len(w)-2] < 128 && !isKeywordWord(w[:len(w)-1]) {
			return w[:len(w)-1]
		}
	}
	return w
}

func pick3(a, b, c int) int {
	switch rng.Intn(3) {
	case 0:
		return a
	case 1:
		return b
	}
	return c
}

func varyLeaf(l *qt) {
	switch l.kind {
	case "term":
		l.toks[0] = varyWord(l.toks[0])
	case "fv":
		switch rng.Intn(4) {
		case 0: // identical
		case 1, 2:
			l.toks[2] = varyWord(l.toks[2])
		default: // the same field compared instead of matched
			v := l.toks[2]
			if !strings.ContainsAny(v, `*?/\`) {
				l.kind = "cmp"
				l.toks = []string{l.toks[0], ":", pick([]string{">", "<"}), pick([]string{"", "="}), v}
			}
		}
	case "cmp": // the opposite comparison on the same field with a neighbouring value: a lower and an upper limit
		if l.toks[2] == ">" {
			l.toks[2] = "<"
		} else {
			l.toks[2] = ">"
		}
		if rng.Intn(3) != 0 {
			l.toks[4] = varyWord(l.toks[4])
		}
	case "range":
		switch rng.Intn(3) {
		case 0:
			l.toks[3], l.toks[5] = l.toks[5], l.toks[3]
		case 1:
			l.toks[5] = l.toks[3]
		default:
			l.toks[5] = varyWord(l.toks[5])
		}
	}
}

func variant(t *qt) *qt {
	c := clone(t)
	var ls []*qt
	leavesOf(c, &ls)
	if len(ls) > 0 {
		varyLeaf(ls[rng.Intn(len(ls))])
	}
	return c
}

// ---- composed values ------------------------------------------------------------------------------------------------
// quoted strings and patterns put together from atoms, so that every punctuation character of the query syntax and of SQL can
// stand next to every other inside one value

var quotedAtoms = []string{"a", "b", "xy", "Z", "9", " ", "  ", "\t", "(", ")", ",", ", ", "'", "''", "%", "_", ":", "[", "]", "{", "}", " AND ", " TO ", " OR ", "*", "?", "/", "-", "--", "+", "~", "^", "=", "<", ">", ";", "é", "$1", "\\\\"}

// the special atoms of ONE query: values of the same query share a small palette (an opening bracket in one value, the closing
// one in another; a quote here, a comma there), so that characters that only matter together meet in one query
var palette []string

var partners = map[string]string{"(": ")", ")": "(", "[": "]", "]": "[", "{": "}", "}": "{", "'": "'", ",": ", ", "*": "?", " AND ": " OR ", "%": "_", "--": ";", "<": ">"}

func newPalette() {
	a := pick(quotedAtoms)
	if rng.Intn(3) == 0 { // the characters that come in pairs, and the ones SQL and the query syntax share
		a = pick([]string{"(", ")", "[", "'", ",", "*", "%", " AND ", "{", "--"})
	}
	palette = []string{a, pick([]string{"a", "b", "xy", "Z", " "})}
	if p, ok := partners[a]; ok {
		palette = append(palette, p)
	} else {
		palette = append(palette, pick(quotedAtoms))
	}
}

func composedQuoted() string {
	if palette == nil || rng.Intn(40) == 0 {
		newPalette()
	}
	n := 1 + rng.Intn(4)
	var b strings.Builder
	b.WriteByte('"')
	for i := 0; i < n; i++ {
		if rng.Intn(10) < 7 {
			b.WriteString(pick(palette))
		} else {
			b.WriteString(pick(quotedAtoms))
		}
	}
	b.WriteByte('"')
	return b.String()
}

var patAtoms = []string{"a", "b", "xy", "q", "*", "?", "*", "?"}

func composedPattern() string {
	for {
		n := 2 + rng.Intn(4)
		var b strings.Builder
		for i := 0; i < n; i++ {
			b.WriteString(pick(patAtoms))
		}
		s := b.String()
		if strings.ContainsAny(s, "*?") && s != "*" {
			return s
		}
	}
}

// ---- nested groups under fields: f:(x AND g:(y AND h:( ... ))) -------------------------------------------------------
func nestedFieldGroups(depth int, style int) string {
	var b strings.Builder
	for i := 0; i < depth; i++ {
		switch style {
		case 0:
			b.WriteString("f" + strconv.Itoa(i%7) + ":(")
		case 1:
			b.WriteString("f" + strconv.Itoa(i%7) + ":(x" + strconv.Itoa(i) + " AND ")
		default:
			b.WriteString("(f" + strconv.Itoa(i%7) + ":(y OR ")
		}
	}
	b.WriteString("z")
	for i := 0; i < depth; i++ {
		if style == 2 {
			b.WriteString("))")
		} else {
			b.WriteString(")")
		}
	}
	return b.String()
}

func (t *qt) lastTerm() string {
	if t.kind == "term" {
		return t.toks[0]
	}
	return t.kids[len(t.kids)-1].lastTerm()
}
