(* C02 / C03 on the model, end to end: whenever the inline renderer returns a text for a tree of the filterable fragment,
   PostgreSQL (scanner + grammar models) reads from that text exactly the expression of Spec/SqlFrag.tr - one expression, of
   allowed constructs only, true on exactly the rows on which the query is true. *)
Require Import Parser ParserShape Render PgModel QuerySem SqlSem SqlFrag.
Require Import SqlParse SqlSemProof SqlLex SqlText.
From Coq Require Import List Ascii String ZArith Bool Lia Arith.
Import ListNotations.

Definition is_bad (t : tok) : bool := match t with TBad _ => true | _ => false end.

Lemma bad_app a b : existsb is_bad (a ++ b) = existsb is_bad a || existsb is_bad b. Proof. apply existsb_app. Qed.
Lemma int_toks_good z : existsb is_bad (int_toks z) = false. Proof. unfold int_toks. destruct (z <? 0)%Z; reflexivity. Qed.
Lemma const_good lf tc ac : const_sql lf = Some (tc, ac) -> existsb is_bad tc = false.
Proof.
  destruct lf as [l op rt b fz]. destruct l; try discriminate; destruct op; try discriminate; destruct rt; try discriminate; cbn; intros C; inversion C; subst.
  - apply int_toks_good.
  - reflexivity.
Qed.
Lemma consts_good : forall l ts as_, consts_sql l = Some (ts, as_) -> existsb is_bad (comma_join ts) = false.
Proof.
  induction l as [|x l IH]; intros ts as_ C; cbn [consts_sql] in C; [inversion C; reflexivity|].
  destruct (const_sql x) as [[t a]|] eqn:Cx; [|discriminate]. destruct (consts_sql l) as [[ts' as']|] eqn:Cl; [|discriminate].
  inversion C; subst. destruct ts' as [|t2 ts2].
  - cbn [comma_join]. apply (const_good x t a Cx).
  - change (comma_join (t :: t2 :: ts2)) with (t ++ TComma :: comma_join (t2 :: ts2)). rewrite bad_app. cbn [existsb is_bad orb].
    rewrite (const_good x t a Cx), (IH (t2 :: ts2) as' eq_refl). reflexivity.
Qed.

Theorem tr_tokens_good_sz : forall n e, esize e <= n -> forall ts a, tr e = Some (ts, a) -> existsb is_bad ts = false.
Proof.
  induction n as [|n IH]; intros e Hn ts a T; [destruct e; cbn in Hn; lia|].
  destruct e as [l op rt b fz]. cbn [esize] in Hn. cbn [tr] in T.
  destruct op; try discriminate.
  - destruct l as [ |?|?|?|?|?|x|?|? ? ?]; try discriminate. destruct rt as [ |?|?|?|?|?|y|?|? ? ?]; try discriminate.
    destruct (tr x) as [[tx ax]|] eqn:Tx; [|discriminate]. destruct (tr y) as [[ty ay]|] eqn:Ty; [|discriminate].
    inversion T; subst; clear T. cbn [vsize] in Hn. cbn [existsb is_bad orb]. rewrite bad_app. cbn [existsb is_bad orb]. rewrite bad_app.
    rewrite (IH x ltac:(lia) tx ax Tx), (IH y ltac:(lia) ty ay Ty). reflexivity.
  - destruct l as [ |?|?|?|?|?|x|?|? ? ?]; try discriminate. destruct rt as [ |?|?|?|?|?|y|?|? ? ?]; try discriminate.
    destruct (tr x) as [[tx ax]|] eqn:Tx; [|discriminate]. destruct (tr y) as [[ty ay]|] eqn:Ty; [|discriminate].
    inversion T; subst; clear T. cbn [vsize] in Hn. cbn [existsb is_bad orb]. rewrite bad_app. cbn [existsb is_bad orb]. rewrite bad_app.
    rewrite (IH x ltac:(lia) tx ax Tx), (IH y ltac:(lia) ty ay Ty). reflexivity.
  - destruct (field_of l); [|discriminate]. destruct rt as [ |?|?|?|?|?|lf|?|? ? ?]; try discriminate. cbn [cmp_text] in T.
    destruct (const_sql lf) as [[tc ac]|] eqn:C; [|discriminate]. inversion T; subst. cbn [existsb is_bad orb]. apply (const_good lf tc ac C).
  - destruct (field_of l); [|discriminate]. destruct rt as [ |?|?|?|?|?|p|?|? ? ?]; try discriminate. destruct p as [l2 op2 r2 b2 f2].
    destruct l2; try discriminate; destruct op2; try discriminate; destruct r2; try discriminate. inversion T; subst. reflexivity.
  - destruct l as [ |?|?|?|?|?|x|?|? ? ?]; try discriminate. destruct rt; try discriminate.
    destruct (tr x) as [[tx ax]|] eqn:Tx; [|discriminate]. inversion T; subst; clear T. cbn [vsize] in Hn.
    cbn [existsb is_bad orb]. rewrite bad_app. rewrite (IH x ltac:(lia) tx ax Tx). reflexivity.
  - destruct (field_of l); [|discriminate]. destruct rt as [ |?|?|?|?|?|?|?|lo hi incl]; try discriminate. cbv zeta in T.
    destruct (int_bound lo); destruct (int_bound hi); destruct (is_star lo); destruct (is_star hi); try discriminate; inversion T; subst;
      cbn [existsb is_bad orb]; rewrite ?bad_app; cbn [existsb is_bad orb]; rewrite ?int_toks_good; reflexivity.
  - destruct l as [ |?|?|?|?|?|x|?|? ? ?]; try discriminate. destruct rt; try discriminate. cbn [vsize] in Hn. apply (IH x ltac:(lia) ts a T).
  - destruct l as [ |?|?|?|?|?|x|?|? ? ?]; try discriminate. destruct rt; try discriminate.
    destruct (tr x) as [[tx ax]|] eqn:Tx; [|discriminate]. inversion T; subst; clear T. cbn [vsize] in Hn.
    cbn [existsb is_bad orb]. rewrite bad_app. rewrite (IH x ltac:(lia) tx ax Tx). reflexivity.
  - destruct (field_of l); [|discriminate]. destruct rt as [ |?|?|?|?|?|lf|?|? ? ?]; try discriminate. cbn [cmp_text] in T.
    destruct (const_sql lf) as [[tc ac]|] eqn:C; [|discriminate]. inversion T; subst. cbn [existsb is_bad orb]. apply (const_good lf tc ac C).
  - destruct (field_of l); [|discriminate]. destruct rt as [ |?|?|?|?|?|lf|?|? ? ?]; try discriminate. cbn [cmp_text] in T.
    destruct (const_sql lf) as [[tc ac]|] eqn:C; [|discriminate]. inversion T; subst. cbn [existsb is_bad orb]. apply (const_good lf tc ac C).
  - destruct (field_of l); [|discriminate]. destruct rt as [ |?|?|?|?|?|lf|?|? ? ?]; try discriminate. cbn [cmp_text] in T.
    destruct (const_sql lf) as [[tc ac]|] eqn:C; [|discriminate]. inversion T; subst. cbn [existsb is_bad orb]. apply (const_good lf tc ac C).
  - destruct (field_of l); [|discriminate]. destruct rt as [ |?|?|?|?|?|lf|?|? ? ?]; try discriminate. cbn [cmp_text] in T.
    destruct (const_sql lf) as [[tc ac]|] eqn:C; [|discriminate]. inversion T; subst. cbn [existsb is_bad orb]. apply (const_good lf tc ac C).
  - destruct (field_of l); [|discriminate]. destruct rt as [ |?|?|?|?|?|p|?|? ? ?]; try discriminate. destruct p as [l2 op2 r2 b2 f2].
    destruct l2 as [ |?|?|?|?|?|?|lits|? ? ?]; try discriminate. destruct lits as [|x lits]; try discriminate.
    destruct op2; try discriminate; destruct r2; try discriminate.
    destruct (consts_sql (x :: lits)) as [[cts cas]|] eqn:C; [|discriminate]. inversion T; subst.
    cbn [existsb is_bad orb]. rewrite bad_app. rewrite (consts_good (x :: lits) cts cas C). reflexivity.
Qed.

Section E2E.
Variable o2 : oracle2.

Theorem render_reads e ts a s : tr e = Some (ts, a) -> text_ok e = true -> names_ok e = true ->
  render o2 e = Ret (s, None) -> pg_read (str s) = Some a.
Proof.
  intros T Ok Nm R. unfold pg_read. rewrite (render_text o2 e ts a s T Ok R), (btxt_pg_lex e ts a T Nm).
  change (fun t : tok => match t with TBad _ => true | _ => false end) with is_bad.
  rewrite (tr_tokens_good_sz (esize e) e (le_n _) ts a T). apply (tr_parses e ts a T).
Qed.
End E2E.
