(* C11 specification: scope f e applies the default field f to every bare operand of e and to nothing else;
   clean f e: the name f does not otherwise occur in e *)
Require Import Parser Shape Build.
From Coq Require Import List Ascii String ZArith Bool Lia Arith.
Import ListNotations.
Close Scope string_scope.
Open Scope nat_scope.

Section S.
Variable f : string.
Notation scw := (Build.scw f).

(* scope the operands below the root; the root itself is scoped by its consumer *)
Fixpoint sci (e : expr) : expr :=
  match e with
  | E (VExp l) And (VExp r) b z => E (VExp (scw (sci l))) And (VExp (scw (sci r))) b z
  | E (VExp l) Or (VExp r) b z => E (VExp (scw (sci l))) Or (VExp (scw (sci r))) b z
  | E (VExp x) Not VNil b z => E (VExp (scw (sci x))) Not VNil b z
  | E (VExp x) Must VNil b z => E (VExp (scw (sci x))) Must VNil b z
  | E (VExp x) MustNot VNil b z => E (VExp (scw (sci x))) MustNot VNil b z
  | E (VExp x) Boost VNil b z => E (VExp (scw (sci x))) Boost VNil b z
  | E (VExp x) Fuzzy VNil b z => E (VExp (scw (sci x))) Fuzzy VNil b z
  | E (VExp t) Equals (VExp v) b z => E (VExp (sci t)) Equals (VExp (sci v)) b z
  | E (VExp t) Like (VExp v) b z => E (VExp (sci t)) Like (VExp (sci v)) b z
  | E (VExp t) Greater (VExp v) b z => E (VExp (sci t)) Greater (VExp (sci v)) b z
  | E (VExp t) Less (VExp v) b z => E (VExp (sci t)) Less (VExp (sci v)) b z
  | E (VExp t) GreaterEq (VExp v) b z => E (VExp (sci t)) GreaterEq (VExp (sci v)) b z
  | E (VExp t) LessEq (VExp v) b z => E (VExp (sci t)) LessEq (VExp (sci v)) b z
  | E (VExp t) Tables.In r b z => E (VExp (sci t)) Tables.In r b z
  | E (VExp t) Range (VBound (VExp x) (VExp y) i) b z => E (VExp (sci t)) Range (VBound (VExp (sci x)) (VExp (sci y)) i) b z
  | _ => e
  end.

Definition scope (e : expr) : expr := scw (sci e).


(* ---------- the default field does not otherwise occur ---------- *)
Fixpoint clean (e : expr) : bool :=
  match e with E l _ r _ _ => vclean l && vclean r end
with vclean (v : value) : bool :=
  match v with
  | VCol s | VStr s => negb (String.eqb s f)
  | VExp e => clean e
  | VList l => (fix cl (l : list expr) : bool := match l with [] => true | x :: r => clean x && cl r end) l
  | VBound a b _ => vclean a && vclean b
  | _ => true
  end.


End S.
