(* C04 (c): the expression PostgreSQL reads from the PARAMETERIZED SQL of a fragment tree (Spec/SqlFragP.trp), with the
   returned parameters bound to its placeholders, is true on exactly the rows on which the query is true - hence on exactly
   the rows the inline SQL selects (Proofs/SqlSemProof.tr_sem). For every tree of the fragment, any depth, every row. *)
Require Import Parser ParserShape Render PgModel QuerySem SqlSem SqlFrag SqlFragP.
Require Import SemPattern Decimal SqlSemProof.
From Coq Require Import List Ascii String ZArith QArith Bool Lia Arith.
Import ListNotations.
Close Scope Q_scope.
Open Scope string_scope.
Open Scope nat_scope.

(* ---- the number of a placeholder ---- *)
Lemma nod_step (d : Z) t a : (0 <= d < 10)%Z ->
  nat_of_digits (ascii_of_nat (48 + Z.to_nat d) :: t) a = nat_of_digits t (a * 10 + Z.to_nat d).
Proof. intros H. cbn [nat_of_digits]. rewrite (digit_code d H). f_equal. lia. Qed.

Lemma z_digits_nod : forall fuel n acc a, (0 <= n < 10 ^ Z.of_nat fuel)%Z -> 0 < fuel ->
  exists m, nat_of_digits (los (z_digits fuel n acc)) a = nat_of_digits (los acc) (a * 10 ^ m + Z.to_nat n).
Proof.
  induction fuel as [|f IH]; intros n acc a Hn Hf; [lia|].
  cbn [z_digits]. assert (D : (0 <= n mod 10 < 10)%Z) by (apply Z.mod_pos_bound; lia).
  destruct (n / 10 =? 0)%Z eqn:E.
  - apply Z.eqb_eq in E. exists 1.
    change (los (String (ascii_of_nat (48 + Z.to_nat (n mod 10))) acc)) with (ascii_of_nat (48 + Z.to_nat (n mod 10)) :: los acc).
    rewrite (nod_step _ _ _ D). f_equal.
    assert (n = n mod 10)%Z by (rewrite (Z.div_mod n 10) at 1; lia). rewrite <- H. cbn [Nat.pow]. lia.
  - apply Z.eqb_neq in E.
    assert (Hq : (0 <= n / 10 < 10 ^ Z.of_nat f)%Z).
    { split; [apply Z.div_pos; lia|]. apply Z.div_lt_upper_bound; [lia|]. rewrite Nat2Z.inj_succ, Z.pow_succ_r in Hn by lia. lia. }
    assert (Hf' : 0 < f).
    { destruct f; [|lia]. cbn in Hn. assert (n / 10 = 0)%Z by (apply Z.div_small; lia). contradiction. }
    destruct (IH (n / 10)%Z (String (ascii_of_nat (48 + Z.to_nat (n mod 10))) acc) a Hq Hf') as [m Em].
    exists (S m). rewrite Em.
    change (los (String (ascii_of_nat (48 + Z.to_nat (n mod 10))) acc)) with (ascii_of_nat (48 + Z.to_nat (n mod 10)) :: los acc).
    rewrite (nod_step _ _ _ D). f_equal.
    assert (Z.to_nat n = 10 * Z.to_nat (n / 10) + Z.to_nat (n mod 10)).
    { rewrite (Z.div_mod n 10) at 1 by lia. rewrite Z2Nat.inj_add, Z2Nat.inj_mul by (try apply Z.mul_nonneg_nonneg; try apply Z.div_pos; lia). reflexivity. }
    rewrite H. cbn [Nat.pow]. ring.
Qed.

Lemma pnum_value k : (Z.of_nat k < 10 ^ 30)%Z -> nat_of_digits (pnum k) 0 = k.
Proof.
  intros H. unfold pnum, nat_digits.
  destruct (z_digits_nod 30 (Z.of_nat k) "" 0 ltac:(lia) ltac:(lia)) as [m E].
  change (str (z_digits 30 (Z.of_nat k) "")) with (los (z_digits 30 (Z.of_nat k) "")). rewrite E. cbn [los list_ascii_of_string nat_of_digits]. lia.
Qed.

Section S.
Variable r : row.

Lemma param_operand pre v post k : List.length pre + 1 = k -> (Z.of_nat k < 10 ^ 30)%Z ->
  operand r (pre ++ prv v :: post) (AParam (pnum k)) = Some (prv v).
Proof.
  intros L B. cbn [operand]. rewrite (pnum_value k B). replace (k - 1) with (List.length pre + 0) by lia.
  rewrite nth_error_app2 by lia. replace (List.length pre + 0 - List.length pre) with 0 by lia. reflexivity.
Qed.

Lemma const_param_leaf lf v : const_param lf = Some v -> const_side lf = true -> leaf_const lf = Some (prv v).
Proof.
  destruct lf as [l op rt b fz]. destruct l; try discriminate; destruct op; try discriminate; destruct rt; try discriminate; cbn [const_param]; intros C Sd.
  - inversion C; subst. reflexivity.
  - destruct (String.eqb s "*"); [discriminate|]. inversion C; subst. reflexivity.
Qed.

Lemma cmp_sem_p o c f lf v pre post k : cmp_of o = Some c -> const_param lf = Some v -> const_side lf = true ->
  List.length pre + 1 = k -> (Z.of_nat k < 10 ^ 30)%Z ->
  ssem r (pre ++ prv v :: post) (AOp (str o) (ACol (str f)) (AParam (pnum k))) = cmp_leaf r c f (VExp lf).
Proof.
  intros Ho C Sd L B. cbn [ssem]. rewrite sstr_str, Ho. unfold cmp2. rewrite col_operand, (param_operand pre v post k L B).
  unfold cmp_leaf. rewrite (const_param_leaf lf v C Sd). reflexivity.
Qed.

Lemma in_sem_p f : forall l vs pre post k, consts_param l = Some vs -> forallb const_side l = true ->
  List.length pre + 1 = k -> (Z.of_nat (k + List.length vs) < 10 ^ 30)%Z ->
  go_in r (pre ++ map prv vs ++ post) (ACol (str f)) (param_asts k (List.length vs)) = in_list r f l.
Proof.
  induction l as [|x l IH]; intros vs pre post k C Sd L B; cbn [consts_param] in C.
  - injection C as <-. reflexivity.
  - destruct (const_param x) as [v|] eqn:Cx; [|discriminate]. destruct (consts_param l) as [vs'|] eqn:Cl; [|discriminate].
    injection C as <-. cbn [forallb] in Sd. apply andb_true_iff in Sd. destruct Sd as [Sx Sl].
    cbn [List.length param_asts map app go_in in_list] in *. f_equal.
    + unfold cmp2, cmp_leaf. rewrite col_operand, (param_operand pre v (map prv vs' ++ post) k L ltac:(lia)), (const_param_leaf x v Cx Sx). reflexivity.
    + replace (pre ++ prv v :: map prv vs' ++ post)%list with ((pre ++ [prv v]) ++ map prv vs' ++ post)%list by (rewrite <- app_assoc; reflexivity).
      apply (IH vs' (pre ++ [prv v])%list post (S k) eq_refl Sl); [rewrite app_length; cbn; lia|lia].
Qed.

Lemma like_sem_p f p pre post k : pattern_side p = true -> List.length pre + 1 = k -> (Z.of_nat k < 10 ^ 30)%Z ->
  ssem r (pre ++ prv (VStr (translate p)) :: post) (ASimilar (ACol (str f)) (AParam (pnum k))) = match r f with Some (RStr s) => Some (wild_match p s) | _ => None end.
Proof.
  unfold pattern_side. intros H L B. apply andb_true_iff in H. destruct H as [Hw Hm].
  cbn [ssem]. rewrite col_operand, (param_operand pre (VStr (translate p)) post k L B). cbn [prv].
  rewrite (translate_no_meta p Hm).
  destruct (r f) as [[q|s]|]; try reflexivity. rewrite (translate_preserves_meaning p s Hw). reflexivity.
Qed.

Lemma bound_leaf v z : int_bound v = Some z -> bound_side v = true -> forall c f, cmp_leaf r c f v = match r f with Some a => cmp_vals c a (RNum (inject_Z z)) | None => None end.
Proof.
  intros B Sd c f. destruct (int_bound_inv v z B) as [b [fz ->]]. unfold cmp_leaf. cbn [leaf_const]. destruct (r f); reflexivity.
Qed.
Lemma bound_sem_p c o f v z pre post k : cmp_of o = Some c -> int_bound v = Some z -> bound_side v = true ->
  List.length pre + 1 = k -> (Z.of_nat k < 10 ^ 30)%Z ->
  ssem r (pre ++ prv (VInt z) :: post) (AOp (str o) (ACol (str f)) (AParam (pnum k))) = cmp_leaf r c f v.
Proof.
  intros Ho B Sd L Bk. destruct (int_bound_inv v z B) as [b [fz ->]].
  apply (cmp_sem_p o c f (E (VInt z) Literal VNil b fz) (VInt z) pre post k Ho eq_refl Sd L Bk).
Qed.

Theorem trp_sem_sz : forall n e, esize e <= n -> forall k ts a ps, trp e k = Some (ts, a, ps) -> side e = true ->
  forall pre post, List.length pre + 1 = k -> (Z.of_nat (k + List.length ps) < 10 ^ 30)%Z ->
  ssem r (pre ++ map prv ps ++ post) a = qsem r e.
Proof.
  induction n as [|n IH]; intros e Hn k ts a ps T Sd pre post L B; [destruct e; cbn in Hn; lia|].
  destruct e as [l op rt b fz]. cbn [esize] in Hn. cbn [trp] in T.
  destruct op; try discriminate.
  - (* And *)
    destruct l as [ |?|?|?|?|?|x|?|? ? ?]; try discriminate. destruct rt as [ |?|?|?|?|?|y|?|? ? ?]; try discriminate.
    destruct (trp x k) as [[[tx ax] px]|] eqn:Tx; [|discriminate]. destruct (trp y (k + List.length px)) as [[[ty ay] py]|] eqn:Ty; [|discriminate].
    injection T as <- <- <-. cbn [side side_v] in Sd. apply andb_true_iff in Sd. destruct Sd as [Sx Sy]. cbn [vsize] in Hn.
    rewrite app_length in B. rewrite ssem_mk_and. cbn [qsem]. rewrite map_app, <- app_assoc.
    rewrite (IH x ltac:(lia) k tx ax px Tx Sx pre (map prv py ++ post)%list L ltac:(lia)).
    replace (pre ++ map prv px ++ map prv py ++ post)%list with ((pre ++ map prv px) ++ map prv py ++ post)%list by (rewrite <- app_assoc; reflexivity).
    rewrite (IH y ltac:(lia) _ ty ay py Ty Sy (pre ++ map prv px)%list post ltac:(rewrite app_length, map_length; lia) ltac:(lia)). reflexivity.
  - (* Or *)
    destruct l as [ |?|?|?|?|?|x|?|? ? ?]; try discriminate. destruct rt as [ |?|?|?|?|?|y|?|? ? ?]; try discriminate.
    destruct (trp x k) as [[[tx ax] px]|] eqn:Tx; [|discriminate]. destruct (trp y (k + List.length px)) as [[[ty ay] py]|] eqn:Ty; [|discriminate].
    injection T as <- <- <-. cbn [side side_v] in Sd. apply andb_true_iff in Sd. destruct Sd as [Sx Sy]. cbn [vsize] in Hn.
    rewrite app_length in B. rewrite ssem_mk_or. cbn [qsem]. rewrite map_app, <- app_assoc.
    rewrite (IH x ltac:(lia) k tx ax px Tx Sx pre (map prv py ++ post)%list L ltac:(lia)).
    replace (pre ++ map prv px ++ map prv py ++ post)%list with ((pre ++ map prv px) ++ map prv py ++ post)%list by (rewrite <- app_assoc; reflexivity).
    rewrite (IH y ltac:(lia) _ ty ay py Ty Sy (pre ++ map prv px)%list post ltac:(rewrite app_length, map_length; lia) ltac:(lia)). reflexivity.
  - (* Equals *)
    destruct (field_of l) as [f|] eqn:Fl; [|discriminate]. destruct rt as [ |?|?|?|?|?|lf|?|? ? ?]; try discriminate. cbn [cmp_text] in T.
    destruct (const_param lf) as [v|] eqn:C; [|discriminate]. injection T as <- <- <-. cbn [side bound_side] in Sd.
    cbn [qsem map app]. rewrite Fl. apply (cmp_sem_p "=" CEq f lf v pre post k eq_refl C Sd L). cbn [List.length] in B. lia.
  - (* Like *)
    destruct (field_of l) as [f|] eqn:Fl; [|discriminate]. destruct rt as [ |?|?|?|?|?|p|?|? ? ?]; try discriminate. destruct p as [l2 op2 r2 b2 f2].
    destruct l2; try discriminate; destruct op2; try discriminate; destruct r2; try discriminate.
    match goal with T : context [is_regex_text ?p] |- _ => destruct (is_regex_text p); [discriminate|] end.
    injection T as <- <- <-. cbn [side] in Sd. cbn [qsem map app]. rewrite Fl. apply like_sem_p; [exact Sd|exact L|cbn [List.length] in B; lia].
  - (* Not *)
    destruct l as [ |?|?|?|?|?|x|?|? ? ?]; try discriminate. destruct rt; try discriminate.
    destruct (trp x k) as [[[tx ax] px]|] eqn:Tx; [|discriminate]. injection T as <- <- <-. cbn [side side_v] in Sd. cbn [vsize] in Hn.
    cbn [ssem qsem]. rewrite (IH x ltac:(lia) k tx ax px Tx Sd pre post L B). reflexivity.
  - (* Range *)
    destruct (field_of l) as [f|] eqn:Fl; [|discriminate]. destruct rt as [ |?|?|?|?|?|?|?|lo hi incl]; try discriminate. cbv zeta in T.
    cbn [side] in Sd. apply andb_true_iff in Sd. destruct Sd as [Slo Shi]. cbn [qsem]. rewrite Fl.
    destruct (int_bound lo) as [a0|] eqn:Ba; destruct (int_bound hi) as [b0|] eqn:Bb.
    + assert (T' : a = ABool true [AOp (str (if incl then ">=" else ">")) (ACol (str f)) (AParam (pnum k)); AOp (str (if incl then "<=" else "<")) (ACol (str f)) (AParam (pnum (S k)))] /\ ps = [VInt a0; VInt b0])
        by (destruct (is_star lo), (is_star hi); inversion T; split; reflexivity).
      destruct T' as [-> ->]. rewrite (int_bound_not_star lo a0 Ba), (int_bound_not_star hi b0 Bb). cbn [List.length] in B.
      rewrite ssem_and. cbn [go_and map app]. rewrite opt_and_true_r.
      rewrite (bound_sem_p (if incl then CGe else CGt) (if incl then ">=" else ">") f lo a0 pre (prv (VInt b0) :: post) k ltac:(destruct incl; reflexivity) Ba Slo L ltac:(lia)).
      replace (pre ++ prv (VInt a0) :: prv (VInt b0) :: post)%list with ((pre ++ [prv (VInt a0)]) ++ prv (VInt b0) :: post)%list by (rewrite <- app_assoc; reflexivity).
      rewrite (bound_sem_p (if incl then CLe else CLt) (if incl then "<=" else "<") f hi b0 (pre ++ [prv (VInt a0)])%list post (S k) ltac:(destruct incl; reflexivity) Bb Shi ltac:(rewrite app_length; cbn; lia) ltac:(lia)).
      reflexivity.
    + destruct (is_star hi) eqn:Sh; [|destruct (is_star lo); discriminate].
      assert (T' : a = AOp (str (if incl then ">=" else ">")) (ACol (str f)) (AParam (pnum k)) /\ ps = [VInt a0]) by (destruct (is_star lo); inversion T; split; reflexivity).
      destruct T' as [-> ->]. rewrite (int_bound_not_star lo a0 Ba). cbn [map app List.length] in *.
      rewrite (bound_sem_p (if incl then CGe else CGt) (if incl then ">=" else ">") f lo a0 pre post k ltac:(destruct incl; reflexivity) Ba Slo L ltac:(lia)).
      rewrite opt_and_true_r. reflexivity.
    + destruct (is_star lo) eqn:Sl; [|discriminate].
      assert (T' : a = AOp (str (if incl then "<=" else "<")) (ACol (str f)) (AParam (pnum k)) /\ ps = [VInt b0]) by (destruct (is_star hi); inversion T; split; reflexivity).
      destruct T' as [-> ->]. rewrite (int_bound_not_star hi b0 Bb). cbn [map app List.length] in *.
      rewrite (bound_sem_p (if incl then CLe else CLt) (if incl then "<=" else "<") f hi b0 pre post k ltac:(destruct incl; reflexivity) Bb Shi L ltac:(lia)).
      rewrite opt_and_true_l. reflexivity.
    + destruct (is_star lo), (is_star hi); discriminate.
  - (* Must *)
    destruct l as [ |?|?|?|?|?|x|?|? ? ?]; try discriminate. destruct rt; try discriminate.
    cbn [side side_v] in Sd. cbn [vsize] in Hn. cbn [qsem]. apply (IH x ltac:(lia) k ts a ps T Sd pre post L B).
  - (* MustNot *)
    destruct l as [ |?|?|?|?|?|x|?|? ? ?]; try discriminate. destruct rt; try discriminate.
    destruct (trp x k) as [[[tx ax] px]|] eqn:Tx; [|discriminate]. injection T as <- <- <-. cbn [side side_v] in Sd. cbn [vsize] in Hn.
    cbn [ssem qsem]. rewrite (IH x ltac:(lia) k tx ax px Tx Sd pre post L B). reflexivity.
  - (* Greater *)
    destruct (field_of l) as [f|] eqn:Fl; [|discriminate]. destruct rt as [ |?|?|?|?|?|lf|?|? ? ?]; try discriminate. cbn [cmp_text] in T.
    destruct (const_param lf) as [v|] eqn:C; [|discriminate]. injection T as <- <- <-. cbn [side bound_side] in Sd.
    cbn [qsem map app]. rewrite Fl. apply (cmp_sem_p ">" CGt f lf v pre post k eq_refl C Sd L). cbn [List.length] in B. lia.
  - (* Less *)
    destruct (field_of l) as [f|] eqn:Fl; [|discriminate]. destruct rt as [ |?|?|?|?|?|lf|?|? ? ?]; try discriminate. cbn [cmp_text] in T.
    destruct (const_param lf) as [v|] eqn:C; [|discriminate]. injection T as <- <- <-. cbn [side bound_side] in Sd.
    cbn [qsem map app]. rewrite Fl. apply (cmp_sem_p "<" CLt f lf v pre post k eq_refl C Sd L). cbn [List.length] in B. lia.
  - (* GreaterEq *)
    destruct (field_of l) as [f|] eqn:Fl; [|discriminate]. destruct rt as [ |?|?|?|?|?|lf|?|? ? ?]; try discriminate. cbn [cmp_text] in T.
    destruct (const_param lf) as [v|] eqn:C; [|discriminate]. injection T as <- <- <-. cbn [side bound_side] in Sd.
    cbn [qsem map app]. rewrite Fl. apply (cmp_sem_p ">=" CGe f lf v pre post k eq_refl C Sd L). cbn [List.length] in B. lia.
  - (* LessEq *)
    destruct (field_of l) as [f|] eqn:Fl; [|discriminate]. destruct rt as [ |?|?|?|?|?|lf|?|? ? ?]; try discriminate. cbn [cmp_text] in T.
    destruct (const_param lf) as [v|] eqn:C; [|discriminate]. injection T as <- <- <-. cbn [side bound_side] in Sd.
    cbn [qsem map app]. rewrite Fl. apply (cmp_sem_p "<=" CLe f lf v pre post k eq_refl C Sd L). cbn [List.length] in B. lia.
  - (* In *)
    destruct (field_of l) as [f|] eqn:Fl; [|discriminate]. destruct rt as [ |?|?|?|?|?|p|?|? ? ?]; try discriminate. destruct p as [l2 op2 r2 b2 f2].
    destruct l2 as [ |?|?|?|?|?|?|lits|? ? ?]; try discriminate. destruct lits as [|x lits]; try discriminate.
    destruct op2; try discriminate; destruct r2; try discriminate.
    destruct (consts_param (x :: lits)) as [vs|] eqn:C; [|discriminate]. injection T as <- <- <-. cbn [side] in Sd.
    cbn [qsem]. rewrite Fl. rewrite ssem_in. apply (in_sem_p f (x :: lits) vs pre post k C Sd L B).
Qed.

(* placeholders numbered from 1, the returned parameters bound in order *)
Theorem trp_sem e ts a ps : trp e 1 = Some (ts, a, ps) -> side e = true -> (Z.of_nat (1 + List.length ps) < 10 ^ 30)%Z ->
  ssem r (map prv ps) a = qsem r e.
Proof.
  intros T Sd B. pose proof (trp_sem_sz (esize e) e (le_n _) 1 ts a ps T Sd [] [] eq_refl B) as H.
  cbn [app] in H. rewrite app_nil_r in H. exact H.
Qed.
End S.
