(* C04 — Parameterized SQL agrees with inline SQL; all values travel as parameters.  (clause (a): placeholder count) *)
Require Import Parser Render Api Shape Count.
Require Import ParserShape2 RenderCount RenderCountP RenderParamTotal RenderTotal RenderValues Values SameKind RenderShape.
From Coq Require Import List String Ascii.

(* (a) on every tree of the parser's output shape whose range fields are columns (rfield_ok; a numeric field term in a closed
   range is known finding K13): the number of ? outside double-quoted identifiers equals the number of parameters.
   Oracle fact used: strconv.ParseFloat rejects a text that starts with a quote. *)
Theorem C04_placeholders_match_parameters : forall o2 : oracle2,
  (forall (q : ascii) (r : string), q = "'"%char \/ q = dq -> pfloat o2 (String q r) = None) ->
  forall (e : expr) (t : string) (ps : list value),
  wf true e = true -> rfield_ok e = true -> render_param o2 e = Ret (t, ps, None) -> qcnt false t = List.length ps.
Proof. exact C04_count. Qed.

(* whenever Parse succeeded, RenderParam returns (never panics) *)
Theorem C04_render_param_returns : forall (o2 : oracle2) (e : expr), wf true e = true -> is_ret (render_param o2 e).
Proof. exact render_param_total. Qed.

(* (b) the parameters are the query's values (Spec/Values.v: columns are not values, an unbounded range end is not a value,
   a pattern matched with LIKE travels translated unless it is a /regexp/) in left-to-right order with their Go kinds,
   on every tree of the parser's output shape *)
Theorem C04_parameters_are_the_values : forall (o2 : oracle2) (e : expr) (t : string) (ps : list value),
  wf true e = true -> render_param o2 e = Ret (t, ps, None) -> ps = vals_e e.
Proof. exact render_param_values. Qed.

(* (d) the SQL text does not depend on the values: two trees that differ only in leaf values of the same kind (Spec/SameKind.v:
   same operators and columns, integer for integer, float for float, string for string with the same being-the-lone-star and
   the same being-a-/regexp/) render the same parameterized text; the parameter lists then agree kind by kind (pk).
   For every tree, of any shape. *)
Theorem C04_sql_text_independent_of_values : forall (o2 : oracle2) (e e' : expr) (t : string) (ps : list value),
  sk_e e e' = true -> render_param o2 e = Ret (t, ps, None) ->
  exists ps', render_param o2 e' = Ret (t, ps', None) /\ Forall2 pk ps ps'.
Proof. exact same_kind_same_text. Qed.

Print Assumptions C04_placeholders_match_parameters.
Print Assumptions C04_sql_text_independent_of_values.
Print Assumptions C04_parameters_are_the_values.
Print Assumptions C04_render_param_returns.
