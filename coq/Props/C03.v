(* C03 — Inline SQL selects exactly the rows the query means.  (pattern clause; the rest is decided by the executable
   semantics Spec/QuerySem.v vs Spec/SqlSem.v on probe rows, see DESIGN 6/C03) *)
Require Import Parser Render QuerySem SqlSem.
Require Import SemPattern.
From Coq Require Import List String.

(* "* and ? match any run / any one character": for every wildcard pattern p without the characters % and _ and every string
   s, PostgreSQL's SIMILAR TO on the translated pattern (star to percent, question mark to underscore: the fixed translation of
   renderfn.go like) accepts s
   exactly when the Lucene pattern p matches s. *)
Theorem C03_pattern_translation_preserves_meaning : forall p s : string,
  no_sql_wild p = true -> sim_match (translate p) s = wild_match p s.
Proof. exact translate_preserves_meaning. Qed.

Print Assumptions C03_pattern_translation_preserves_meaning.
