(* Scratch: C01/C16 — the fuel in the lexer model is never the reason for an outcome:
   any two fuels above the input length give the same result, so the model is the fuel-free lexer *)
Require Import Lex LexProof.
From Coq Require Import List Ascii String NArith Bool Arith Lia.
Import ListNotations.

Section U.
Variable cl : classes.

Lemma take_len w s acc s' acc' : take_onto w s acc = (s', acc') -> 1 <= w <= List.length s -> List.length s' < List.length s.
Proof. intros T H. exact (take_onto_len w s acc s' acc' H T). Qed.

Lemma lex_word_fuel : forall f1 f2 s acc, List.length s < f1 -> List.length s < f2 ->
  lex_word cl f1 s acc = lex_word cl f2 s acc.
Proof.
  induction f1 as [|f1 IH]; intros f2 s acc H1 H2; [lia|]. destruct f2 as [|f2]; [lia|].
  cbn [lex_word]. destruct (decode_rune s) as [[r w]|] eqn:D; [|reflexivity].
  pose proof (decode_width _ _ _ D) as Hw.
  destruct (is_alnum cl r || is_wildcard r || (r =? 46)%N || (r =? 45)%N).
  - destruct (take_onto w s acc) as [s' acc'] eqn:T. pose proof (take_len _ _ _ _ _ T Hw). apply IH; lia.
  - destruct (is_escape r); [|reflexivity].
    destruct (take_onto w s acc) as [s1 acc1] eqn:T1. pose proof (take_len _ _ _ _ _ T1 Hw).
    destruct (decode_rune s1) as [[r2 w2]|] eqn:D2.
    + pose proof (decode_width _ _ _ D2) as Hw2.
      destruct (take_onto w2 s1 acc1) as [s2 acc2] eqn:T2. pose proof (take_len _ _ _ _ _ T2 Hw2). apply IH; lia.
    + apply IH; lia.
Qed.

Lemma lex_phrase_fuel : forall f1 f2 open s acc, List.length s < f1 -> List.length s < f2 ->
  lex_phrase cl f1 open s acc = lex_phrase cl f2 open s acc.
Proof.
  induction f1 as [|f1 IH]; intros f2 open s acc H1 H2; [lia|]. destruct f2 as [|f2]; [lia|].
  cbn [lex_phrase]. destruct (decode_rune s) as [[r w]|] eqn:D; [|reflexivity].
  pose proof (decode_width _ _ _ D) as Hw.
  destruct (take_onto w s acc) as [s' acc'] eqn:T. pose proof (take_len _ _ _ _ _ T Hw).
  assert (R : lex_phrase cl f1 open s' acc' = lex_phrase cl f2 open s' acc') by (apply IH; lia).
  rewrite R. reflexivity.
Qed.

Lemma lex_regexp_fuel : forall f1 f2 open s acc, List.length s < f1 -> List.length s < f2 ->
  lex_regexp cl f1 open s acc = lex_regexp cl f2 open s acc.
Proof.
  induction f1 as [|f1 IH]; intros f2 open s acc H1 H2; [lia|]. destruct f2 as [|f2]; [lia|].
  cbn [lex_regexp]. destruct (decode_rune s) as [[r w]|] eqn:D; [|reflexivity].
  pose proof (decode_width _ _ _ D) as Hw.
  destruct (take_onto w s acc) as [s' acc'] eqn:T. pose proof (take_len _ _ _ _ _ T Hw).
  assert (R : lex_regexp cl f1 open s' acc' = lex_regexp cl f2 open s' acc') by (apply IH; lia).
  destruct (is_alnum cl r || is_wildcard r); [exact R|].
  destruct (is_escape r).
  - destruct (decode_rune s') as [[r2 w2]|] eqn:D2; [|exact R].
    pose proof (decode_width _ _ _ D2) as Hw2.
    destruct (take_onto w2 s' acc') as [s2 acc2] eqn:T2. pose proof (take_len _ _ _ _ _ T2 Hw2). apply IH; lia.
  - rewrite R. reflexivity.
Qed.

(* the word state never fails: LErr there could only come from the fuel *)
Lemma lex_word_never_fails : forall f s acc, List.length s < f -> lex_word cl f s acc <> LErr.
Proof.
  induction f as [|f IH]; intros s acc H; [lia|]. cbn [lex_word].
  destruct (decode_rune s) as [[r w]|] eqn:D; [|discriminate].
  pose proof (decode_width _ _ _ D) as Hw.
  destruct (is_alnum cl r || is_wildcard r || (r =? 46)%N || (r =? 45)%N).
  - destruct (take_onto w s acc) as [s' acc'] eqn:T. pose proof (take_len _ _ _ _ _ T Hw). apply IH; lia.
  - destruct (is_escape r); [|discriminate].
    destruct (take_onto w s acc) as [s1 acc1] eqn:T1. pose proof (take_len _ _ _ _ _ T1 Hw).
    destruct (decode_rune s1) as [[r2 w2]|] eqn:D2.
    + pose proof (decode_width _ _ _ D2) as Hw2.
      destruct (take_onto w2 s1 acc1) as [s2 acc2] eqn:T2. pose proof (take_len _ _ _ _ _ T2 Hw2). apply IH; lia.
    + apply IH; lia.
Qed.

(* the token stream: more fuel than S |s| changes nothing *)
Lemma lex_all_fuel : forall f1 f2 s, List.length s < f1 -> List.length s < f2 -> lex_all cl f1 s = lex_all cl f2 s.
Proof.
  induction f1 as [|f1 IH]; intros f2 s H1 H2; [lia|]. destruct f2 as [|f2]; [lia|].
  cbn [lex_all]. destruct (next_token cl s) as [t rest] eqn:E.
  destruct (typ t) eqn:Ty; try reflexivity;
    (destruct (next_token_lossless cl s t rest E) as (w & _ & _ & L); [split; rewrite Ty; discriminate|];
     f_equal; apply IH; lia).
Qed.
Theorem lex_fuel_free s k : lex cl s = lex_all cl (S (List.length s) + k) s.
Proof. unfold lex. apply lex_all_fuel; lia. Qed.
End U.
Print Assumptions lex_fuel_free.
Print Assumptions lex_word_never_fails.
