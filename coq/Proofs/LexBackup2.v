(* backup() after a step that consumed ONE INVALID byte: DecodeLastRuneInString reports width 1 as well, provided the prefix was
   decoded from the start of the input (every position the lexer ever stands on is such a position). *)
Require Import Lex LexProof LexCtx LexBackup.
Require LexWs.
From Coq Require Import List Ascii String NArith Bool Arith Lia.
Import ListNotations.

(* p is a position the forward decoder reaches from the start of s *)
Fixpoint walk (fuel : nat) (s : bytes) (p : nat) : bool :=
  match p with
  | 0 => true
  | _ =>
    match fuel with
    | 0 => false
    | S f =>
      match decode_rune s with
      | Some (_, w) => if Nat.ltb p w then false else walk f (skipn w s) (p - w)
      | None => false
      end
    end
  end.
Definition aligned (s : bytes) (p : nat) : bool := walk (List.length s) s p.

Lemma decode_some c s : exists rn w, decode_rune (c :: s) = Some (rn, w).
Proof. destruct (decode_rune (c :: s)) as [[rn w]|] eqn:D; [eauto|apply decode_none in D; discriminate]. Qed.

Lemma nth_error_firstn_lt : forall (l : bytes) n p, p < n -> nth_error (firstn n l) p = nth_error l p.
Proof.
  induction l as [|y l IH]; intros n p H; [rewrite firstn_nil; reflexivity|].
  destruct n as [|n]; [lia|]. destruct p as [|p]; [reflexivity|]. cbn [firstn nth_error]. apply IH. lia.
Qed.

Lemma nth_error_skipn_add : forall (l : bytes) n p, nth_error (skipn n l) p = nth_error l (n + p).
Proof. induction l as [|y l IH]; intros n p; [rewrite skipn_nil; destruct p, n; reflexivity|]. destruct n as [|n]; [reflexivity|]. cbn [skipn plus nth_error]. apply IH. Qed.

(* a byte that starts a rune is always reached *)
Lemma start_aligned : forall f s p c, List.length s <= f -> nth_error s p = Some c -> rune_start c = true -> walk f s p = true.
Proof.
  induction f as [|f IH]; intros s p c Hf Hn Hs.
  - destruct s; [destruct p; discriminate|cbn in Hf; lia].
  - destruct p as [|p']; [reflexivity|]. cbn [walk]. destruct s as [|c0 s']; [discriminate|].
    destruct (decode_some c0 s') as (rn & w & D). rewrite D. pose proof (decode_width _ _ _ D) as Hw.
    destruct (Nat.ltb (S p') w) eqn:Lt.
    + (* inside the first step: a multi-byte step, whose later bytes are continuation bytes *)
      exfalso. apply Nat.ltb_lt in Lt.
      pose proof (decode_valid_step (firstn w (c0 :: s')) (skipn w (c0 :: s')) rn w ltac:(rewrite firstn_skipn; exact D) ltac:(rewrite firstn_length; lia) ltac:(lia)) as V.
      assert (Hc2 : nth_error (firstn w (c0 :: s')) (S p') = Some c) by (rewrite (nth_error_firstn_lt _ w (S p') Lt); exact Hn).
      apply start_not_cont in Hs.
      destruct (firstn w (c0 :: s')) as [|b0 [|b1 [|b2 [|b3 [|? ?]]]]]; cbn [valid_step] in V; try contradiction.
      * destruct p'; discriminate.
      * destruct V as (_ & _ & C1). destruct p' as [|[|?]]; cbn in Hc2; try discriminate. inversion Hc2; subst. congruence.
      * destruct V as (_ & _ & C1 & C2). destruct p' as [|[|[|?]]]; cbn in Hc2; try discriminate; inversion Hc2; subst; congruence.
      * destruct V as (_ & _ & C1 & C2 & C3). destruct p' as [|[|[|[|?]]]]; cbn in Hc2; try discriminate; inversion Hc2; subst; congruence.
    + apply Nat.ltb_ge in Lt. apply (IH (skipn w (c0 :: s')) (S p' - w) c).
      * rewrite skipn_length. cbn [List.length] in *. lia.
      * rewrite nth_error_skipn_add. replace (w + (S p' - w)) with (S p') by lia. exact Hn.
      * exact Hs.
Qed.

Lemma skipn_add : forall (l : bytes) a b, skipn a (skipn b l) = skipn (b + a) l.
Proof. induction l as [|y l IH]; intros a b; [rewrite !skipn_nil; reflexivity|]. destruct b as [|b]; [reflexivity|]. cbn [skipn plus]. apply IH. Qed.

(* no position strictly inside a step is reached *)
Lemma no_boundary_inside : forall f s p q rn w, List.length s <= f -> walk f s p = true ->
  decode_rune (skipn p s) = Some (rn, w) -> p < q < p + w -> walk f s q = false.
Proof.
  induction f as [|f IH]; intros s p q rn w Hf Wp D Hq.
  - destruct s; [rewrite skipn_nil in D; discriminate|cbn in Hf; lia].
  - destruct q as [|q']; [lia|]. cbn [walk]. destruct p as [|p'].
    + cbn [skipn] in D. rewrite D. replace (Nat.ltb (S q') w) with true by (symmetry; apply Nat.ltb_lt; lia). reflexivity.
    + cbn [walk] in Wp. destruct (decode_rune s) as [[rn0 w0]|] eqn:D0; [|discriminate].
      pose proof (decode_width _ _ _ D0) as Hw0.
      destruct (Nat.ltb (S p') w0) eqn:Lt; [discriminate|]. apply Nat.ltb_ge in Lt.
      replace (Nat.ltb (S q') w0) with false by (symmetry; apply Nat.ltb_ge; lia).
      apply (IH (skipn w0 s) (S p' - w0) (S q' - w0) rn w).
      * rewrite skipn_length. lia.
      * exact Wp.
      * rewrite skipn_add. replace (w0 + (S p' - w0)) with (S p') by lia. exact D.
      * lia.
Qed.

(* a complete valid multi-byte sequence decodes the same whatever follows *)
Lemma decode_full_ctx x rn r' : decode_rune x = Some (rn, List.length x) -> 2 <= List.length x -> decode_rune (x ++ r') = Some (rn, List.length x).
Proof.
  intros D L. destruct x as [|c0 x]; [cbn in L; lia|]. cbn [app]. rewrite decode_shape in *. cbv zeta in *.
  destruct (bval c0 <? 128)%N; [inversion D; cbn in *; lia|].
  destruct (in_range 194 223 (bval c0)).
  { destruct x as [|c1 x]; [cbn in L; lia|]. cbn [app nb okb] in *. destruct (cont (bval c1)); [exact D|inversion D; cbn in *; lia]. }
  destruct (in_range 224 239 (bval c0)).
  { destruct x as [|c1 [|c2 x]]; cbn [app nb tl okb andb] in *.
    - cbn in L; lia.
    - rewrite ?andb_false_r in D; inversion D; cbn in *; lia.
    - exact D. }
  destruct (in_range 240 244 (bval c0)); [|inversion D; cbn in *; lia].
  destruct x as [|c1 [|c2 [|c3 x]]]; cbn [app nb tl okb andb] in *.
  - cbn in L; lia.
  - rewrite ?andb_false_r in D; inversion D; cbn in *; lia.
  - rewrite ?andb_false_r in D; inversion D; cbn in *; lia.
  - exact D.
Qed.

Lemma scan_back_le c t : scan_back (c :: t) <= List.length t.
Proof.
  destruct t as [|b1 [|b2 [|b3 [|b4 t4]]]]; cbn [scan_back List.length]; try lia;
    repeat match goal with |- context [if ?b then _ else _] => destruct b end; lia.
Qed.

Theorem decode_last_width_invalid : forall a c r rn,
  aligned (a ++ c :: r) (List.length a) = true -> (bval c <? 128)%N = false -> decode_rune (c :: r) = Some (rn, 1) ->
  snd (decode_last (a ++ [c])) = 1.
Proof.
  intros a c r rn Al Hc D. unfold decode_last. rewrite rev_app_distr. cbn [rev app]. rewrite Hc.
  change (c :: rev a) with (rev [c] ++ rev a). rewrite <- rev_app_distr.
  set (k := scan_back (rev (a ++ [c]))).
  destruct (decode_rune (lastn (S k) (a ++ [c]))) as [[r' size]|] eqn:DL; [|reflexivity].
  destruct (Nat.eqb size (S k)) eqn:E; [|reflexivity]. apply Nat.eqb_eq in E. cbn [snd]. subst size.
  destruct k as [|k'] eqn:K; [reflexivity|]. exfalso.
  (* the forward decoding from the byte the scan stopped at would run across the position |a| *)
  assert (Kle : S k' <= List.length a).
  { pose proof (scan_back_le c (rev a)) as H. rewrite rev_length in H. unfold k in K. rewrite rev_app_distr in K. cbn [rev app] in K. rewrite K in H. exact H. }
  set (a1 := firstn (List.length a - S k') a). set (a2 := skipn (List.length a - S k') a).
  assert (Ea : a = a1 ++ a2) by (unfold a1, a2; rewrite firstn_skipn; reflexivity).
  assert (La2 : List.length a2 = S k') by (unfold a2; rewrite skipn_length; lia).
  assert (Sub : lastn (S (S k')) (a ++ [c]) = a2 ++ [c]).
  { rewrite Ea, <- app_assoc. replace (S (S k')) with (List.length (a2 ++ [c])) by (rewrite app_length; cbn; lia). apply lastn_app. }
  rewrite Sub in DL.
  assert (Lsub : List.length (a2 ++ [c]) = S (S k')) by (rewrite app_length; cbn; lia).
  rewrite <- Lsub in DL.
  pose proof (decode_valid_step (a2 ++ [c]) [] r' _ ltac:(rewrite app_nil_r; exact DL) eq_refl ltac:(lia)) as V.
  pose proof (decode_full_ctx (a2 ++ [c]) r' r DL ltac:(lia)) as DF.
  destruct a2 as [|c' a2']; [cbn in La2; lia|].
  assert (Sc : rune_start c' = true).
  { destruct a2' as [|? [|? [|? [|? ?]]]]; cbn [app valid_step] in V; try contradiction; tauto. }
  set (s := a ++ c :: r). set (j := List.length a1).
  assert (Nj : nth_error s j = Some c').
  { unfold s, j. rewrite Ea, <- app_assoc. rewrite nth_error_app2 by lia. rewrite Nat.sub_diag. reflexivity. }
  pose proof (start_aligned (List.length s) s j c' (le_n _) Nj Sc) as Aj.
  assert (Dj : decode_rune (skipn j s) = Some (r', List.length ((c' :: a2') ++ [c]))).
  { unfold s, j. rewrite Ea, <- app_assoc. rewrite skipn_app, skipn_all, Nat.sub_diag. cbn [skipn].
    etransitivity; [|exact DF]. f_equal. cbn [app]. rewrite <- app_assoc. reflexivity. }
  pose proof (no_boundary_inside (List.length s) s j (List.length a) r' _ (le_n _) Aj Dj) as NB.
  unfold aligned in Al. fold s in Al. rewrite NB in Al; [discriminate|].
  assert (La : List.length a = List.length a1 + List.length (c' :: a2')) by (rewrite Ea at 1; apply app_length).
  unfold j. rewrite Lsub, La, La2. lia.
Qed.

(* the positions the lexer stands on: the start, and from a reached position the one after the next decoding step *)
Lemma aligned_0 s : aligned s 0 = true. Proof. unfold aligned. destruct (List.length s); reflexivity. Qed.
Lemma walk_step : forall f s p rn w, List.length s <= f -> walk f s p = true -> decode_rune (skipn p s) = Some (rn, w) -> walk f s (p + w) = true.
Proof.
  induction f as [|f IH]; intros s p rn w Hf Wp D.
  - destruct s; [rewrite skipn_nil in D; discriminate|cbn in Hf; lia].
  - pose proof (decode_width _ _ _ D) as Hw. destruct p as [|p'].
    + cbn [skipn plus] in *. destruct w as [|w']; [lia|]. cbn [walk]. rewrite D. rewrite Nat.ltb_irrefl, Nat.sub_diag.
      destruct f; reflexivity.
    + cbn [walk] in Wp. destruct (decode_rune s) as [[rn0 w0]|] eqn:D0; [|discriminate].
      pose proof (decode_width _ _ _ D0) as Hw0.
      destruct (Nat.ltb (S p') w0) eqn:Lt; [discriminate|]. apply Nat.ltb_ge in Lt.
      change (S p' + w) with (S (p' + w)). cbn [walk]. rewrite D0.
      replace (Nat.ltb (S (p' + w)) w0) with false by (symmetry; apply Nat.ltb_ge; lia).
      replace (S (p' + w) - w0) with ((S p' - w0) + w) by lia.
      apply (IH (skipn w0 s) (S p' - w0) rn w).
      * rewrite skipn_length. lia.
      * exact Wp.
      * rewrite skipn_add. replace (w0 + (S p' - w0)) with (S p') by lia. exact D.
Qed.
Lemma aligned_step s p rn w : aligned s p = true -> decode_rune (skipn p s) = Some (rn, w) -> aligned s (p + w) = true.
Proof. unfold aligned. intros A D. apply (walk_step _ s p rn w (le_n _) A D). Qed.

(* backup() undoes next() at every position the lexer can stand on, for every input: valid UTF-8 or not *)
Theorem backup_undoes_next_everywhere : forall a x r rn,
  aligned (a ++ x ++ r) (List.length a) = true -> decode_rune (x ++ r) = Some (rn, List.length x) ->
  snd (decode_last (a ++ x)) = List.length x /\ List.length (a ++ x) - snd (decode_last (a ++ x)) = List.length a.
Proof.
  intros a x r rn Al D.
  assert (W : snd (decode_last (a ++ x)) = List.length x).
  { pose proof (decode_width _ _ _ D) as Hw.
    destruct x as [|c [|c1 x']].
    - cbn in Hw. lia.
    - destruct (bval c <? 128)%N eqn:A.
      + rewrite (decode_last_undoes_decode a [c] r rn 1 D eq_refl (or_intror A)). reflexivity.
      + apply (decode_last_width_invalid a c r rn Al A D).
    - assert (H2 : 2 <= List.length (c :: c1 :: x')) by (cbn; lia).
      rewrite (decode_last_undoes_decode a (c :: c1 :: x') r rn _ D eq_refl (or_introl H2)). reflexivity. }
  split; [exact W|]. rewrite W, app_length. lia.
Qed.
