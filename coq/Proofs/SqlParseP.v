(* C04: PostgreSQL's grammar reads from the token sequence of the PARAMETERIZED SQL of a fragment tree (Spec/SqlFragP.trp)
   exactly the expression trp assigns to it. Same proof as Proofs/SqlParse.v with placeholders where the constants were. *)
Require Import Parser ParserShape Render PgModel QuerySem SqlFrag SqlFragP SqlParse.
From Coq Require Import List Ascii String ZArith Bool Lia Arith.
Import ListNotations.
Open Scope string_scope.
Open Scope nat_scope.

Lemma cmp_parses_tok f minp o fld t a rest :
  cmp_op (str o) = true -> (forall E, prim_of E false (t :: rest) = POk a rest) -> minp <= 4 -> stop minp rest ->
  PgModel.expr (S (S f)) minp false (TIdent fld :: TOp (str o) :: t :: rest) = POk (AOp (str o) (ACol fld) a) rest.
Proof.
  intros Hc P Hm H. rewrite expr_S. cbn [prim_of]. cbn [List.length].
  assert (M : (4 <? minp) = false) by (apply Nat.ltb_ge; lia).
  rewrite (loop_cmp _ _ _ _ _ _ _ Hc M).
  rewrite (expr_atom f 5 false t a rest (P _) (stop_mono minp 5 rest ltac:(lia) H)).
  apply loop_stop. exact H.
Qed.

Lemma param_prim E rs k rest : prim_of E rs (TParam k :: rest) = POk (AParam k) rest.
Proof. reflexivity. Qed.

Lemma param_toks_S k n : param_toks k (S (S n)) = TParam (pnum k) :: TComma :: param_toks (S k) (S n).
Proof. reflexivity. Qed.

Lemma items_params f K : forall n k j rest acc, S n <= j ->
  items (PgModel.expr (S f)) K j (param_toks k (S n) ++ TRP :: rest) acc = K (rev acc ++ param_asts k (S n))%list rest.
Proof.
  induction n as [|n IH]; intros k j rest acc Hj; (destruct j as [|j]; [lia|]).
  - cbn [param_toks app param_asts items].
    rewrite (expr_atom f 0 false (TParam (pnum k)) (AParam (pnum k)) (TRP :: rest) eq_refl I). reflexivity.
  - rewrite param_toks_S. cbn [app items].
    rewrite (expr_atom f 0 false (TParam (pnum k)) (AParam (pnum k)) (TComma :: param_toks (S k) (S n) ++ TRP :: rest) eq_refl I).
    rewrite (IH (S k) j rest (AParam (pnum k) :: acc) ltac:(lia)). cbn [rev param_asts]. rewrite <- app_assoc. reflexivity.
Qed.

Lemma param_toks_length k n : List.length (param_toks k (S n)) = S (2 * n).
Proof. revert k. induction n as [|n IH]; intros k; [reflexivity|]. rewrite param_toks_S. cbn [List.length]. rewrite IH. lia. Qed.

Lemma consts_param_length l : forall vs, consts_param l = Some vs -> List.length vs = List.length l.
Proof.
  induction l as [|x l IH]; intros vs C; cbn in C; [inversion C; reflexivity|].
  destruct (const_param x); [|discriminate]. destruct (consts_param l) as [vs'|]; [|discriminate]. inversion C; subst. cbn. rewrite (IH vs' eq_refl). reflexivity.
Qed.

Lemma range2_parses_p f fl (incl : bool) k rest : stop0 rest ->
  PgModel.expr (S (S (S f))) 0 false
    (TIdent fl :: TOp (str (if incl then ">=" else ">")) :: TParam (pnum k) :: TKw KAnd :: TIdent fl :: TOp (str (if incl then "<=" else "<")) :: TParam (pnum (S k)) :: rest)
  = POk (ABool true [AOp (str (if incl then ">=" else ">")) (ACol fl) (AParam (pnum k)); AOp (str (if incl then "<=" else "<")) (ACol fl) (AParam (pnum (S k)))]) rest.
Proof.
  intros Hr. rewrite expr_S. cbn [prim_of]. cbn [List.length].
  rewrite (loop_cmp _ 0 _ _ _ _ _ (ge_cmp incl) eq_refl).
  rewrite (expr_atom (S f) 5 false (TParam (pnum k)) (AParam (pnum k)) (TKw KAnd :: TIdent fl :: TOp (str (if incl then "<=" else "<")) :: TParam (pnum (S k)) :: rest) eq_refl ltac:(cbn; lia)).
  rewrite loop_and by reflexivity.
  rewrite (cmp_parses_tok f 3 (if incl then "<=" else "<") fl (TParam (pnum (S k))) (AParam (pnum (S k))) rest (le_cmp incl) (fun E => eq_refl) ltac:(lia) (stop0_any 3 rest Hr)).
  cbn [mk_and]. apply loop_stop. apply stop0_any. exact Hr.
Qed.

Lemma trp_eq l op rt b fz k : trp (E l op rt b fz) k =
    match op with
    | And | Or =>
        match l, rt with
        | VExp x, VExp y =>
            match trp x k with
            | Some (tx, ax, px) =>
                match trp y (k + List.length px) with
                | Some (ty, ay, py) =>
                    Some (TLP :: tx ++ TRP :: TKw (match op with And => KAnd | _ => KOr end) :: TLP :: ty ++ [TRP],
                          match op with And => mk_and ax ay | _ => mk_or ax ay end, (px ++ py)%list)
                | None => None
                end
            | None => None
            end
        | _, _ => None
        end
    | Not | MustNot =>
        match l, rt with
        | VExp x, VNil => match trp x k with Some (tx, ax, px) => Some (TKw KNot :: TLP :: tx ++ [TRP], ANot ax, px) | None => None end
        | _, _ => None
        end
    | Must => match l, rt with VExp x, VNil => trp x k | _, _ => None end
    | Equals | Greater | Less | GreaterEq | LessEq =>
        match field_of l, rt, cmp_text op with
        | Some f, VExp lf, Some o =>
            match const_param lf with
            | Some v => Some ([TIdent (str f); TOp (str o); TParam (pnum k)], AOp (str o) (ACol (str f)) (AParam (pnum k)), [v])
            | None => None
            end
        | _, _, _ => None
        end
    | Like =>
        match field_of l, rt with
        | Some f, VExp (E (VStr p) Wild VNil _ _) =>
            if is_regex_text p then None else
            Some ([TIdent (str f); TKw KSimilar; TKw KTo; TParam (pnum k)], ASimilar (ACol (str f)) (AParam (pnum k)), [VStr (translate p)])
        | _, _ => None
        end
    | Tables.In =>
        match field_of l, rt with
        | Some f, VExp (E (VList (x :: lits)) Tables.List VNil _ _) =>
            match consts_param (x :: lits) with
            | Some vs => Some (TIdent (str f) :: TKw KIn :: TLP :: param_toks k (List.length vs) ++ [TRP],
                               AIn (ACol (str f)) (param_asts k (List.length vs)), vs)
            | None => None
            end
        | _, _ => None
        end
    | Range =>
        match field_of l, rt with
        | Some f, VBound lo hi incl =>
            let c := TIdent (str f) in
            let ge := str (if incl then ">=" else ">") in
            let le := str (if incl then "<=" else "<") in
            match int_bound lo, int_bound hi, is_star lo, is_star hi with
            | Some a, Some b, _, _ =>
                Some ([c; TOp ge; TParam (pnum k); TKw KAnd; c; TOp le; TParam (pnum (S k))],
                      ABool true [AOp ge (ACol (str f)) (AParam (pnum k)); AOp le (ACol (str f)) (AParam (pnum (S k)))], [VInt a; VInt b])
            | None, Some b, true, _ => Some ([c; TOp le; TParam (pnum k)], AOp le (ACol (str f)) (AParam (pnum k)), [VInt b])
            | Some a, None, _, true => Some ([c; TOp ge; TParam (pnum k)], AOp ge (ACol (str f)) (AParam (pnum k)), [VInt a])
            | _, _, _, _ => None
            end
        | _, _ => None
        end
    | _ => None
    end.
Proof. reflexivity. Qed.

Definition trp_cmp (l rt : value) (o : string) (k : nat) : option (list tok * ast * list value) :=
  match field_of l, rt with
  | Some f, VExp lf =>
      match const_param lf with
      | Some v => Some ([TIdent (str f); TOp (str o); TParam (pnum k)], AOp (str o) (ACol (str f)) (AParam (pnum k)), [v])
      | None => None
      end
  | _, _ => None
  end.
Lemma trp_cmp_eq l op rt b fz o k : cmp_text op = Some o -> trp (E l op rt b fz) k = trp_cmp l rt o k.
Proof.
  intros H. rewrite trp_eq. unfold trp_cmp. destruct op; try discriminate; cbn [cmp_text] in *; inversion H; subst;
  destruct (field_of l); try reflexivity; destruct rt; reflexivity.
Qed.
Lemma trp_cmp_parses l rt o k ts a ps f rest : trp_cmp l rt o k = Some (ts, a, ps) -> cmp_op (str o) = true -> stop0 rest ->
  PgModel.expr (S (S f)) 0 false (ts ++ rest) = POk a rest.
Proof.
  unfold trp_cmp. intros T Hc Hr. destruct (field_of l) as [fl|]; [|discriminate].
  destruct rt as [ |?|?|?|?|?|lf|?|? ? ?]; try discriminate.
  destruct (const_param lf) as [v|]; [|discriminate]. inversion T; subst; clear T.
  cbn [app]. apply cmp_parses_tok; [exact Hc | intros E; reflexivity | lia | apply stop0_any; exact Hr].
Qed.
Ltac cmp_case_p o :=
  match goal with T : trp (E ?l ?op ?rt ?b ?fz) ?k = Some _, Hf : need _ <= ?f |- _ =>
    rewrite (trp_cmp_eq l op rt b fz o k eq_refl) in T; cbn [need] in Hf; destruct f as [|[|f]]; try lia;
    apply (trp_cmp_parses l rt o k _ _ _ _ _ T eq_refl); assumption end.

Theorem trp_parses_sz : forall n e, esize e <= n -> forall k ts a ps, trp e k = Some (ts, a, ps) ->
  forall f rest, stop0 rest -> need e <= f -> PgModel.expr f 0 false (ts ++ rest) = POk a rest.
Proof.
  induction n as [|n IH]; intros e Hn k ts a ps T f rest Hr Hf; [destruct e; cbn in Hn; lia|].
  destruct e as [l op rt b fz]. cbn [esize] in Hn.
  destruct op; try (rewrite trp_eq in T; discriminate).
  - (* And *) rewrite trp_eq in T.
    destruct l as [ |?|?|?|?|?|x|?|? ? ?]; try discriminate. destruct rt as [ |?|?|?|?|?|y|?|? ? ?]; try discriminate.
    destruct (trp x k) as [[[tx ax] px]|] eqn:Tx; [|discriminate]. destruct (trp y (k + List.length px)) as [[[ty ay] py]|] eqn:Ty; [|discriminate].
    inversion T; subst; clear T. cbn [need need_v] in Hf. cbn [vsize] in Hn.
    destruct f as [|[|f]]; try lia.
    cbn [app]. repeat (rewrite <- app_assoc; cbn [app]).
    rewrite expr_S. cbn [prim_of].
    rewrite (IH x ltac:(lia) k tx ax px Tx (S f) (TRP :: TKw KAnd :: TLP :: ty ++ TRP :: rest) I ltac:(lia)).
    cbn [List.length]. rewrite loop_and by reflexivity.
    rewrite (paren_parses f 3 false ty ay rest (IH y ltac:(lia) _ ty ay py Ty f (TRP :: rest) I ltac:(lia)) (stop0_any 3 rest Hr)).
    rewrite app_length. cbn [List.length]. rewrite Nat.add_succ_r. apply loop_stop. apply stop0_any. exact Hr.
  - (* Or *) rewrite trp_eq in T.
    destruct l as [ |?|?|?|?|?|x|?|? ? ?]; try discriminate. destruct rt as [ |?|?|?|?|?|y|?|? ? ?]; try discriminate.
    destruct (trp x k) as [[[tx ax] px]|] eqn:Tx; [|discriminate]. destruct (trp y (k + List.length px)) as [[[ty ay] py]|] eqn:Ty; [|discriminate].
    inversion T; subst; clear T. cbn [need need_v] in Hf. cbn [vsize] in Hn.
    destruct f as [|[|f]]; try lia.
    cbn [app]. repeat (rewrite <- app_assoc; cbn [app]).
    rewrite expr_S. cbn [prim_of].
    rewrite (IH x ltac:(lia) k tx ax px Tx (S f) (TRP :: TKw KOr :: TLP :: ty ++ TRP :: rest) I ltac:(lia)).
    cbn [List.length]. rewrite loop_or by reflexivity.
    rewrite (paren_parses f 2 false ty ay rest (IH y ltac:(lia) _ ty ay py Ty f (TRP :: rest) I ltac:(lia)) (stop0_any 2 rest Hr)).
    rewrite app_length. cbn [List.length]. rewrite Nat.add_succ_r. apply loop_stop. apply stop0_any. exact Hr.
  - (* Equals *) cmp_case_p "=".
  - (* Like *) rewrite trp_eq in T.
    destruct (field_of l) as [fl|] eqn:Fl; [|discriminate].
    destruct rt as [ |?|?|?|?|?|p|?|? ? ?]; try discriminate. destruct p as [l2 op2 r2 b2 f2].
    destruct l2; try discriminate; destruct op2; try discriminate; destruct r2; try discriminate.
    destruct (is_regex_text s); [discriminate|].
    inversion T; subst; clear T. cbn [need] in Hf. destruct f as [|[|f]]; try lia.
    cbn [app]. rewrite expr_S. cbn [prim_of]. cbn [List.length]. rewrite loop_similar by reflexivity.
    rewrite (expr_atom f 6 false (TParam (pnum k)) (AParam (pnum k)) rest eq_refl (stop0_any 6 rest Hr)).
    apply loop_stop. apply stop0_any. exact Hr.
  - (* Not *) rewrite trp_eq in T.
    destruct l as [ |?|?|?|?|?|x|?|? ? ?]; try discriminate. destruct rt; try discriminate.
    destruct (trp x k) as [[[tx ax] px]|] eqn:Tx; [|discriminate]. inversion T; subst; clear T.
    cbn [need need_v] in Hf. cbn [vsize] in Hn. destruct f as [|[|f]]; try lia.
    cbn [app]. repeat (rewrite <- app_assoc; cbn [app]).
    apply not_parses; [apply (IH x ltac:(lia) k tx ax ps Tx f (TRP :: rest) I ltac:(lia)) | exact Hr].
  - (* Range *) rewrite trp_eq in T.
    destruct (field_of l) as [fl|] eqn:Fl; [|discriminate].
    destruct rt as [ |?|?|?|?|?|?|?|lo hi incl]; try discriminate. cbv zeta in T.
    destruct (int_bound lo) as [a0|] eqn:Ba; destruct (int_bound hi) as [b0|] eqn:Bb; destruct (is_star lo); destruct (is_star hi);
      try discriminate; inversion T; subst; clear T; cbn [need] in Hf; destruct f as [|[|[|[|f]]]]; try lia.
    all: try (cbn [app]; apply cmp_parses_tok; [apply le_cmp | intros E0; reflexivity | lia | apply stop0_any; exact Hr]).
    all: try (cbn [app]; apply cmp_parses_tok; [apply ge_cmp | intros E0; reflexivity | lia | apply stop0_any; exact Hr]).
    all: cbn [app]; apply range2_parses_p; exact Hr.
  - (* Must *) rewrite trp_eq in T.
    destruct l as [ |?|?|?|?|?|x|?|? ? ?]; try discriminate. destruct rt; try discriminate.
    cbn [need need_v] in Hf. cbn [vsize] in Hn. apply (IH x ltac:(lia) k ts a ps T f rest Hr Hf).
  - (* MustNot *) rewrite trp_eq in T.
    destruct l as [ |?|?|?|?|?|x|?|? ? ?]; try discriminate. destruct rt; try discriminate.
    destruct (trp x k) as [[[tx ax] px]|] eqn:Tx; [|discriminate]. inversion T; subst; clear T.
    cbn [need need_v] in Hf. cbn [vsize] in Hn. destruct f as [|[|f]]; try lia.
    cbn [app]. repeat (rewrite <- app_assoc; cbn [app]).
    apply not_parses; [apply (IH x ltac:(lia) k tx ax ps Tx f (TRP :: rest) I ltac:(lia)) | exact Hr].
  - cmp_case_p ">".
  - cmp_case_p "<".
  - cmp_case_p ">=".
  - cmp_case_p "<=".
  - (* In *) rewrite trp_eq in T.
    destruct (field_of l) as [fl|] eqn:Fl; [|discriminate].
    destruct rt as [ |?|?|?|?|?|p|?|? ? ?]; try discriminate. destruct p as [l2 op2 r2 b2 f2].
    destruct l2 as [ |?|?|?|?|?|?|lits|? ? ?]; try discriminate. destruct lits as [|x lits]; try discriminate.
    destruct op2; try discriminate; destruct r2; try discriminate.
    destruct (consts_param (x :: lits)) as [vs|] eqn:C; [|discriminate].
    inversion T; subst; clear T. cbn [need] in Hf. destruct f as [|[|f]]; try lia.
    rewrite (consts_param_length (x :: lits) ps C). cbn [List.length].
    cbn [app]. repeat (rewrite <- app_assoc; cbn [app]).
    rewrite expr_S. cbn [prim_of]. cbn [List.length]. rewrite loop_in by reflexivity.
    rewrite (items_params f _ (List.length lits) k).
    + cbn [rev app]. apply loop_stop. apply stop0_any. exact Hr.
    + rewrite app_length, param_toks_length. cbn [List.length]. lia.
Qed.

Lemma need_le_p_sz : forall n e, esize e <= n -> forall k ts a ps, trp e k = Some (ts, a, ps) -> need e <= S (S (List.length ts)).
Proof.
  induction n as [|n IH]; intros e Hn k ts a ps T; [destruct e; cbn in Hn; lia|].
  destruct e as [l op rt b fz]. cbn [esize] in Hn. rewrite trp_eq in T.
  destruct op; try discriminate; cbv iota in T.
  - destruct l as [ |?|?|?|?|?|x|?|? ? ?]; try discriminate. destruct rt as [ |?|?|?|?|?|y|?|? ? ?]; try discriminate.
    destruct (trp x k) as [[[tx ax] px]|] eqn:Tx; [|discriminate]. destruct (trp y (k + List.length px)) as [[[ty ay] py]|] eqn:Ty; [|discriminate].
    inversion T; subst; clear T. cbn [need need_v vsize] in *.
    pose proof (IH x ltac:(lia) _ tx ax px Tx). pose proof (IH y ltac:(lia) _ ty ay py Ty).
    cbn [List.length]. rewrite app_length. cbn [List.length]. rewrite app_length. cbn [List.length]. lia.
  - destruct l as [ |?|?|?|?|?|x|?|? ? ?]; try discriminate. destruct rt as [ |?|?|?|?|?|y|?|? ? ?]; try discriminate.
    destruct (trp x k) as [[[tx ax] px]|] eqn:Tx; [|discriminate]. destruct (trp y (k + List.length px)) as [[[ty ay] py]|] eqn:Ty; [|discriminate].
    inversion T; subst; clear T. cbn [need need_v vsize] in *.
    pose proof (IH x ltac:(lia) _ tx ax px Tx). pose proof (IH y ltac:(lia) _ ty ay py Ty).
    cbn [List.length]. rewrite app_length. cbn [List.length]. rewrite app_length. cbn [List.length]. lia.
  - destruct (field_of l); [|discriminate]. destruct rt; try discriminate. cbn [cmp_text] in T.
    destruct (const_param e); [|discriminate]. inversion T; subst. cbn [need List.length]. lia.
  - destruct (field_of l); [|discriminate]. destruct rt; try discriminate. destruct e as [l2 op2 r2 b2 f2].
    destruct l2; try discriminate; destruct op2; try discriminate; destruct r2; try discriminate.
    match goal with T : context [is_regex_text ?p] |- _ => destruct (is_regex_text p); [discriminate|] end. inversion T; subst. cbn [need List.length]. lia.
  - destruct l as [ |?|?|?|?|?|x|?|? ? ?]; try discriminate. destruct rt; try discriminate.
    destruct (trp x k) as [[[tx ax] px]|] eqn:Tx; [|discriminate]. inversion T; subst; clear T. cbn [need need_v vsize] in *.
    pose proof (IH x ltac:(lia) _ tx ax ps Tx). cbn [List.length]. rewrite app_length. cbn [List.length]. lia.
  - destruct (field_of l); [|discriminate]. destruct rt; try discriminate. cbv zeta in T.
    destruct (int_bound rt1); destruct (int_bound rt2); destruct (is_star rt1); destruct (is_star rt2); try discriminate; inversion T; subst; cbn [need List.length]; lia.
  - destruct l as [ |?|?|?|?|?|x|?|? ? ?]; try discriminate. destruct rt; try discriminate. cbn [need need_v vsize] in *.
    apply (IH x ltac:(lia) k ts a ps T).
  - destruct l as [ |?|?|?|?|?|x|?|? ? ?]; try discriminate. destruct rt; try discriminate.
    destruct (trp x k) as [[[tx ax] px]|] eqn:Tx; [|discriminate]. inversion T; subst; clear T. cbn [need need_v vsize] in *.
    pose proof (IH x ltac:(lia) _ tx ax ps Tx). cbn [List.length]. rewrite app_length. cbn [List.length]. lia.
  - destruct (field_of l); [|discriminate]. destruct rt; try discriminate. cbn [cmp_text] in T.
    destruct (const_param e); [|discriminate]. inversion T; subst. cbn [need List.length]. lia.
  - destruct (field_of l); [|discriminate]. destruct rt; try discriminate. cbn [cmp_text] in T.
    destruct (const_param e); [|discriminate]. inversion T; subst. cbn [need List.length]. lia.
  - destruct (field_of l); [|discriminate]. destruct rt; try discriminate. cbn [cmp_text] in T.
    destruct (const_param e); [|discriminate]. inversion T; subst. cbn [need List.length]. lia.
  - destruct (field_of l); [|discriminate]. destruct rt; try discriminate. cbn [cmp_text] in T.
    destruct (const_param e); [|discriminate]. inversion T; subst. cbn [need List.length]. lia.
  - destruct (field_of l); [|discriminate]. destruct rt; try discriminate. destruct e as [l2 op2 r2 b2 f2].
    destruct l2 as [ |?|?|?|?|?|?|lits|? ? ?]; try discriminate. destruct lits as [|x lits]; try discriminate.
    destruct op2; try discriminate; destruct r2; try discriminate.
    destruct (consts_param (x :: lits)) as [vs|]; [|discriminate]. inversion T; subst. cbn [need List.length]. lia.
Qed.

Theorem trp_parses e k ts a ps : trp e k = Some (ts, a, ps) -> pg_parse ts = Some a.
Proof.
  intros T. unfold pg_parse.
  pose proof (trp_parses_sz (esize e) e (le_n _) k ts a ps T (S (S (List.length ts))) [] I (need_le_p_sz (esize e) e (le_n _) k ts a ps T)) as P.
  rewrite app_nil_r in P. rewrite P. reflexivity.
Qed.
