// gentables: translate the tables of go-lucene's source into a Coq file.
package main

import (
	"fmt"
	"sort"

	"github.com/grindlemire/go-lucene/internal/lex"
	"github.com/grindlemire/go-lucene/pkg/driver"
	"github.com/grindlemire/go-lucene/pkg/lucene/expr"

	"go/ast"
	"go/parser"
	"go/token"
	"os"
	"path/filepath"
	"strconv"
	"strings"
)

var fset = token.NewFileSet()

func parseFile(root, rel string) *ast.File {
	f, err := parser.ParseFile(fset, filepath.Join(root, rel), nil, 0)
	if err != nil {
		fail("cannot parse %s: %v", rel, err)
	}
	return f
}

// soft: inside driverTablesFromSource a shape that is not understood is not fatal (the tables are then read off the running package)
var soft = false

type softFail string

func fail(format string, a ...any) {
	if soft {
		panic(softFail(fmt.Sprintf(format, a...)))
	}
	fmt.Fprintf(os.Stderr, "gentables: "+format+"\n", a...)
	os.Exit(2)
}

// names of an iota const block whose first spec has the given type name
func iotaBlock(f *ast.File, typ string) []string {
	for _, d := range f.Decls {
		g, ok := d.(*ast.GenDecl)
		if !ok || g.Tok != token.CONST || len(g.Specs) == 0 {
			continue
		}
		first := g.Specs[0].(*ast.ValueSpec)
		id, ok := first.Type.(*ast.Ident)
		if !ok || id.Name != typ {
			continue
		}
		if len(first.Values) != 1 {
			fail("const block of %s: first value is not iota", typ)
		}
		if v, ok := first.Values[0].(*ast.Ident); !ok || v.Name != "iota" {
			fail("const block of %s does not start at iota", typ)
		}
		out := []string{}
		for _, s := range g.Specs {
			vs := s.(*ast.ValueSpec)
			if len(vs.Names) != 1 || (s != g.Specs[0] && (vs.Type != nil || len(vs.Values) != 0)) {
				fail("const block of %s: unexpected spec", typ)
			}
			out = append(out, vs.Names[0].Name)
		}
		return out
	}
	fail("no iota block for %s", typ)
	return nil
}

func varValue(f *ast.File, name string) ast.Expr {
	for _, d := range f.Decls {
		g, ok := d.(*ast.GenDecl)
		if !ok || g.Tok != token.VAR {
			continue
		}
		for _, s := range g.Specs {
			vs := s.(*ast.ValueSpec)
			for i, n := range vs.Names {
				if n.Name == name {
					if i >= len(vs.Values) {
						fail("var %s has no initialiser", name)
					}
					return vs.Values[i]
				}
			}
		}
	}
	fail("no var %s", name)
	return nil
}

// varValueOpt: like varValue, nil when the file declares no such variable
func varValueOpt(f *ast.File, name string) ast.Expr {
	for _, d := range f.Decls {
		g, ok := d.(*ast.GenDecl)
		if !ok || g.Tok != token.VAR {
			continue
		}
		for _, s := range g.Specs {
			vs := s.(*ast.ValueSpec)
			for i, n := range vs.Names {
				if n.Name == name && i < len(vs.Values) {
					return vs.Values[i]
				}
			}
		}
	}
	return nil
}

// resolveLit: a composite literal, or a call f() of a function of the same file whose body is `return <composite literal>`
// (a table built by a function instead of written in place)
func resolveLit(f *ast.File, e ast.Expr) ast.Expr {
	call, ok := e.(*ast.CallExpr)
	if !ok || len(call.Args) != 0 {
		return e
	}
	id, ok := call.Fun.(*ast.Ident)
	if !ok {
		return e
	}
	for _, d := range f.Decls {
		fd, ok := d.(*ast.FuncDecl)
		if !ok || fd.Recv != nil || fd.Name.Name != id.Name || fd.Body == nil || len(fd.Body.List) != 1 {
			continue
		}
		if r, ok := fd.Body.List[0].(*ast.ReturnStmt); ok && len(r.Results) == 1 {
			if cl, ok := r.Results[0].(*ast.CompositeLit); ok {
				return cl
			}
		}
	}
	return e
}

func sel(e ast.Expr) string { // Ident or pkg.Ident -> Ident
	switch x := e.(type) {
	case *ast.Ident:
		return x.Name
	case *ast.SelectorExpr:
		return x.Sel.Name
	}
	fail("expected identifier at %s", fset.Position(e.Pos()))
	return ""
}

type kv struct{ k, v string }

func mapLit(e ast.Expr, val func(ast.Expr) string, key func(ast.Expr) string) []kv {
	cl, ok := e.(*ast.CompositeLit)
	if !ok {
		fail("expected composite literal at %s", fset.Position(e.Pos()))
	}
	out := []kv{}
	for _, el := range cl.Elts {
		p, ok := el.(*ast.KeyValueExpr)
		if !ok {
			fail("expected key: value at %s", fset.Position(el.Pos()))
		}
		out = append(out, kv{key(p.Key), val(p.Value)})
	}
	return out
}

// Go map literals have no order: the generated association lists are put into a canonical order (position of the key - or, for
// string-keyed maps, of the value - in the declaration order of its enum; anything else alphabetically), so that reordering the
// entries of a map in the source does not change Tables.v.
func canon(l []kv, order []string, byValue bool) []kv {
	idx := map[string]int{}
	for i, x := range order {
		idx[x] = i
	}
	rank := func(x kv) (int, string) {
		s := x.k
		if byValue {
			s = x.v
		}
		if i, ok := idx[s]; ok {
			return i, x.k
		}
		return len(order), s + "\x00" + x.k
	}
	out := append([]kv{}, l...)
	sort.SliceStable(out, func(i, j int) bool {
		ri, si := rank(out[i])
		rj, sj := rank(out[j])
		if ri != rj {
			return ri < rj
		}
		return si < sj
	})
	return out
}

func runeKey(e ast.Expr) string {
	b, ok := e.(*ast.BasicLit)
	if !ok || b.Kind != token.CHAR {
		fail("expected rune literal at %s", fset.Position(e.Pos()))
	}
	r, _, _, err := strconv.UnquoteChar(b.Value[1:len(b.Value)-1], '\'')
	if err != nil {
		fail("bad rune %s", b.Value)
	}
	return fmt.Sprintf("%d", r)
}

func strLit(e ast.Expr) string {
	b, ok := e.(*ast.BasicLit)
	if !ok || b.Kind != token.STRING {
		fail("expected string literal at %s", fset.Position(e.Pos()))
	}
	s, _ := strconv.Unquote(b.Value)
	return s
}

func renderFn(e ast.Expr) string {
	switch x := e.(type) {
	case *ast.Ident:
		return "Fn_" + x.Name
	case *ast.CallExpr:
		if len(x.Args) == 1 {
			return "(Fn_" + sel(x.Fun) + " " + sel(x.Args[0]) + ")"
		}
	}
	fail("unsupported render function expression at %s", fset.Position(e.Pos()))
	return ""
}

func coqList(items []string) string { return "[" + strings.Join(items, "; ") + "]" }

func main() {
	root := os.Args[1]
	var b strings.Builder
	p := func(format string, a ...any) { fmt.Fprintf(&b, format, a...) }
	p("(* GENERATED by gentables from the Go sources under %s — do not edit *)\n", "/repo")
	p("From Coq Require Import List String NArith.\nImport ListNotations.\nOpen Scope string_scope.\n\n")

	lexf := parseFile(root, "internal/lex/lex.go")
	toks := iotaBlock(lexf, "TokType")
	p("Inductive toktype := %s.\n", strings.Join(prefix(toks, "| "), " "))
	p("Definition toktype_order : list toktype := %s.\n", coqList(toks))
	syms := canon(mapLit(varValue(lexf, "symbols"), sel, runeKey), toks, true)
	p("Definition symbols : list (N * toktype) := %s.\n", coqList(pairs(syms, "(%s%%N, %s)")))
	var terms []kv
	if v := varValueOpt(lexf, "terminalTokens"); v != nil {
		terms = canon(mapLit(v, func(ast.Expr) string { return "" }, sel), toks, false)
	} else {
		// the table is no longer a literal (a switch, say): it is read through the exported predicate lex.IsTerminal, token type by
		// token type in the order of the const block (gentables is linked against the working tree like the observer)
		for i, name := range toks {
			if lex.IsTerminal(lex.Token{Typ: lex.TokType(i)}) {
				terms = append(terms, kv{name, ""})
			}
		}
	}
	p("Definition terminal_tokens : list toktype := %s.\n\n", coqList(keys(terms)))

	redf := parseFile(root, "pkg/lucene/reduce/reduce.go")
	rcl, ok := varValue(redf, "reducers").(*ast.CompositeLit)
	if !ok {
		fail("reducers is not a literal")
	}
	reds := []string{}
	for _, el := range rcl.Elts {
		reds = append(reds, "R_"+sel(el))
	}
	p("Inductive reducer_id := %s.\n", strings.Join(prefix(uniq(reds), "| "), " "))
	p("Definition reducer_order : list reducer_id := %s.\n\n", coqList(reds))

	opf := parseFile(root, "pkg/lucene/expr/operator.go")
	ops := iotaBlock(opf, "Operator")
	p("Inductive operator := %s.\n", strings.Join(prefix(withP(ops, ""), "| "), " "))
	p("Definition operator_order : list operator := %s.\n", coqList(withP(ops, "")))
	fs := canon(mapLit(varValue(opf, "fromString"), sel, strLit), withP(ops, ""), true)
	p("Definition from_string : list (string * operator) := %s.\n", coqList(pairsQ(fs, "(\"%s\", %s)")))
	var ts []kv
	if v := varValueOpt(opf, "toString"); v != nil {
		ts = canon(mapLit(v, strLit, sel), withP(ops, ""), false)
	} else {
		// no literal any more: read through the exported method Operator.String, operator by operator
		for i, name := range ops {
			if str := expr.Operator(i).String(); str != "" {
				ts = append(ts, kv{name, str})
			}
		}
	}
	p("Definition to_string : list (operator * string) := %s.\n\n", coqList(pairsQ(ts, "(%s, \"%s\")")))

	valf := parseFile(root, "pkg/lucene/expr/validator.go")
	vals := canon(mapLit(varValue(valf, "validators"), sel, sel), withP(ops, ""), false)
	p("Definition validators : list (operator * string) := %s.\n", coqList(pairsQ(vals, "(%s, \"%s\")")))
	renf := parseFile(root, "pkg/lucene/expr/renderer.go")
	rens := canon(mapLit(varValue(renf, "renderers"), sel, sel), withP(ops, ""), false)
	p("Definition renderers : list (operator * string) := %s.\n\n", coqList(pairsQ(rens, "(%s, \"%s\")")))

	// the driver tables: read from the source (base.go Shared, postgresql.go NewPostgresDriver: its own literal map overlaid with
	// Shared); when the source no longer has that shape (the map built by a function, the overlay moved into a helper) the same
	// tables are read off the running package instead: every registered function is identified by what it returns for marker
	// arguments (gentables is linked against the working tree like the observer)
	shared, pgOwn, ok := driverTablesFromSource(root, ops)
	if !ok {
		shared, pgOwn = driverTablesByProbing(ops)
	}
	fnNames := []string{}
	for _, x := range shared {
		fnNames = append(fnNames, strings.Trim(strings.Fields(strings.Trim(x.v, "()"))[0], "()"))
	}
	p("Inductive renderfn_id := %s.\n", strings.Join(prefix(fnSigs(uniq(fnNames), shared), "| "), " "))
	p("Definition shared_fns : list (operator * renderfn_id) := %s.\n", coqList(pairsQ(shared, "(%s, %s)")))
	p("Definition postgres_own_fns : list (operator * renderfn_id) := %s.\n", coqList(pairsQ(pgOwn, "(%s, %s)")))
	// renderfn.go: the functions that are one fmt.Sprintf of a constant format over left / right / op
	rff := parseFile(root, "pkg/driver/renderfn.go")
	fmts := sprintfFns(rff)
	p("\nInductive fmt_arg := | A_left | A_right | A_op.\n")
	p("Definition fn_formats : list (string * (string * list fmt_arg)) := %s.\n", coqList(fmts))
	os.Stdout.WriteString(b.String())
}

// sprintfFns: for every top-level function of the file whose body is `return fmt.Sprintf("<fmt>", args...), nil` - or returns a
// function literal with such a body - where every arg is one of the identifiers left, right, op: ("name", ("<fmt>", [args])).
// Functions of any other form are skipped (they are modelled by hand and tied by the correspondence check only).
func sprintfFns(f *ast.File) []string {
	out := []string{}
	for _, d := range f.Decls {
		fd, ok := d.(*ast.FuncDecl)
		if !ok || fd.Recv != nil || fd.Body == nil {
			continue
		}
		body := fd.Body
		if len(body.List) == 1 {
			if r, ok := body.List[0].(*ast.ReturnStmt); ok && len(r.Results) == 1 {
				if fl, ok := r.Results[0].(*ast.FuncLit); ok {
					body = fl.Body
				}
			}
		}
		if len(body.List) != 1 {
			continue
		}
		r, ok := body.List[0].(*ast.ReturnStmt)
		if !ok || len(r.Results) != 2 {
			continue
		}
		if id, ok := r.Results[1].(*ast.Ident); !ok || id.Name != "nil" {
			continue
		}
		call, ok := r.Results[0].(*ast.CallExpr)
		if !ok || len(call.Args) < 1 {
			continue
		}
		se, ok := call.Fun.(*ast.SelectorExpr)
		if !ok || se.Sel.Name != "Sprintf" {
			continue
		}
		if pk, ok := se.X.(*ast.Ident); !ok || pk.Name != "fmt" {
			continue
		}
		lit, ok := call.Args[0].(*ast.BasicLit)
		if !ok || lit.Kind != token.STRING {
			continue
		}
		format, err := strconv.Unquote(lit.Value)
		if err != nil || strings.ContainsAny(format, "\"\\") || !isASCII(format) {
			continue
		}
		args := []string{}
		good := true
		for _, a := range call.Args[1:] {
			id, ok := a.(*ast.Ident)
			if !ok || (id.Name != "left" && id.Name != "right" && id.Name != "op") {
				good = false
				break
			}
			args = append(args, "A_"+id.Name)
		}
		if !good {
			continue
		}
		out = append(out, fmt.Sprintf("(\"%s\", (\"%s\", %s))", fd.Name.Name, format, coqList(args)))
	}
	sort.Strings(out)
	return out
}

func isASCII(s string) bool {
	for i := 0; i < len(s); i++ {
		if s[i] < 32 || s[i] > 126 {
			return false
		}
	}
	return true
}

func prefix(l []string, p string) []string {
	o := []string{}
	for _, x := range l {
		o = append(o, p+x)
	}
	return o
}
func withP(l []string, p string) []string {
	o := []string{}
	for _, x := range l {
		o = append(o, p+x)
	}
	return o
}
func keys(l []kv) []string {
	o := []string{}
	for _, x := range l {
		o = append(o, x.k)
	}
	return o
}
func pairs(l []kv, f string) []string {
	o := []string{}
	for _, x := range l {
		o = append(o, fmt.Sprintf(f, x.k, x.v))
	}
	return o
}
func pairsQ(l []kv, f string) []string { return pairs(l, f) }
func uniq(l []string) []string {
	seen := map[string]bool{}
	o := []string{}
	for _, x := range l {
		if !seen[x] {
			seen[x] = true
			o = append(o, x)
		}
	}
	return o
}
func fnSigs(names []string, shared []kv) []string {
	o := []string{}
	for _, n := range names {
		sig := n
		for _, x := range shared {
			if strings.HasPrefix(x.v, "("+n+" ") {
				sig = n + " (_ : operator)"
			}
		}
		o = append(o, sig)
	}
	return o
}

func driverTablesFromSource(root string, ops []string) (shared, pgOwn []kv, ok bool) {
	soft = true
	defer func() {
		soft = false
		if r := recover(); r != nil {
			if _, isSoft := r.(softFail); !isSoft {
				panic(r)
			}
			shared, pgOwn, ok = nil, nil, false
		}
	}()
	basef := parseFile(root, "pkg/driver/base.go")
	shared = canon(mapLit(resolveLit(basef, varValue(basef, "Shared")), renderFn, sel), withP(ops, ""), false)
	pgf := parseFile(root, "pkg/driver/postgresql.go")
	overlay, found := false, false
	ast.Inspect(pgf, func(n ast.Node) bool {
		switch x := n.(type) {
		case *ast.AssignStmt:
			if len(x.Lhs) == 1 && len(x.Rhs) == 1 {
				if id, isId := x.Lhs[0].(*ast.Ident); isId && id.Name == "fns" {
					if _, isLit := x.Rhs[0].(*ast.CompositeLit); isLit {
						pgOwn = mapLit(x.Rhs[0], renderFn, sel)
						found = true
					}
				}
			}
		case *ast.RangeStmt:
			if id, isId := x.X.(*ast.Ident); isId && id.Name == "Shared" {
				overlay = true
			}
		}
		return true
	})
	if !overlay || !found {
		fail("NewPostgresDriver no longer overlays Shared in the known form")
	}
	pgOwn = canon(pgOwn, withP(ops, ""), false)
	return shared, pgOwn, true
}

// identify a render function by its results on marker arguments
func probe(fn driver.RenderFN, l, r string) (s string, err error) {
	defer func() {
		if x := recover(); x != nil {
			s, err = "", fmt.Errorf("panic: %v", x)
		}
	}()
	return fn(l, r)
}

func identifyFn(fn driver.RenderFN, ops []string) string {
	s1, e1 := probe(fn, "L", "R")
	_, e2 := probe(fn, "\xff", "R")
	if e1 == nil {
		switch s1 {
		case "L = R":
			return "Fn_equals"
		case "L > R":
			return "Fn_greater"
		case "L >= R":
			return "Fn_greaterEq"
		case "L < R":
			return "Fn_less"
		case "L <= R":
			return "Fn_lessEq"
		case "L IN R":
			return "Fn_inFn"
		case "(L)":
			return "Fn_list"
		case "L SIMILAR TO R":
			return "Fn_like"
		case "L":
			if e2 != nil {
				return "Fn_literal"
			}
			return "Fn_noop"
		}
		for i, name := range ops {
			str := expr.Operator(i).String()
			if str == "" {
				continue
			}
			if s1 == "L "+str+" R" {
				return "(Fn_basicCompound " + name + ")"
			}
			if s1 == str+"(L)" {
				return "(Fn_basicWrap " + name + ")"
			}
		}
	}
	if s, err := probe(fn, `"c"`, "[1, 5]"); err == nil && strings.Contains(s, ">= 1") && strings.Contains(s, "<= 5") {
		return "Fn_rang"
	}
	fail("a registered render function is none of the known ones (it returns %q for the marker arguments)", s1)
	return ""
}

func driverTablesByProbing(ops []string) (shared, pgOwn []kv) {
	for i, name := range ops {
		if fn, ok := driver.Shared[expr.Operator(i)]; ok && fn != nil {
			shared = append(shared, kv{name, identifyFn(fn, ops)})
		}
	}
	sharedId := map[string]string{}
	for _, x := range shared {
		sharedId[x.k] = x.v
	}
	pg := driver.NewPostgresDriver()
	for i, name := range ops {
		if fn, ok := pg.RenderFNs[expr.Operator(i)]; ok && fn != nil {
			if id := identifyFn(fn, ops); sharedId[name] != id {
				pgOwn = append(pgOwn, kv{name, id})
			}
		}
	}
	// an operator of Shared that the postgres driver lacks cannot be expressed as an overlay: fail loudly
	for _, x := range shared {
		if _, ok := pg.RenderFNs[expr.Operator(indexOf(ops, x.k))]; !ok {
			fail("the postgres driver lacks the Shared function of %s", x.k)
		}
	}
	return shared, pgOwn
}

func indexOf(l []string, x string) int {
	for i, y := range l {
		if y == x {
			return i
		}
	}
	return -1
}
