(* Shape of every tree the JSON decoder can build (C13): leaf-built or object-built, recursively *)
Require Import Parser Shape Render Decode.
From Coq Require Import List Ascii String ZArith Bool Lia Arith.
Import ListNotations.

Definition okb (d : expr -> bool) (v : value) : bool := match v with VNil => true | VExp x => d x | _ => false end.
Fixpoint dsh (e : expr) : bool :=
  Shape.is_leaf e ||
  match e with
  | E l op r _ _ =>
    (match l with VExp a => dsh a | VList xs => forallb Shape.is_leaf xs | _ => false end) &&
    (match r with
     | VNil => true | VExp c => dsh c
     | VBound mn mx _ => (match mn with VNil => true | VExp x => dsh x | _ => false end) &&
                         (match mx with VNil => true | VExp x => dsh x | _ => false end)
     | _ => false end)
  end.

Definition dshv (v : value) : bool :=
  match v with VExp a => dsh a | VList xs => forallb Shape.is_leaf xs | _ => false end.
Definition dshr (v : value) : bool :=
  match v with
  | VNil => true | VExp c => dsh c
  | VBound mn mx _ => (match mn with VNil => true | VExp x => dsh x | _ => false end) &&
                      (match mx with VNil => true | VExp x => dsh x | _ => false end)
  | _ => false end.
