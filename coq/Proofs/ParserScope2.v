(* Scratch: C11, part 2 — cleanliness through the run, step simulation, final theorem *)
Require Import Parser ParserShape ParserShape2 ParserLay ParserScope.
From Coq Require Import List String ZArith Bool Lia Arith.
Import ListNotations.
Close Scope string_scope.
Open Scope nat_scope.

Arguments parse_literal : simpl never.
Arguments to_positive_float : simpl never.
Arguments expr_new : simpl never.
Arguments wrap_literal : simpl never.
Arguments drop : simpl never.

Section C11b.
Variable o : oracle.
Variable f : string.
Hypothesis f_nonempty : String.eqb f "" = false.

Notation clean := (Scope.clean f).
Notation items_clean := (ParserScope.items_clean f).
Notation sci := (Scope.sci f).
Notation sci_item := (ParserScope.sci_item f).
Notation scope := (Scope.scope f).

Ltac shape H :=
    repeat match type of H with
    | match ?x with _ => _ end = _ => destruct x eqn:?; try discriminate
    | (if ?x then _ else _) = _ => destruct x eqn:?; try discriminate
    | (let '(_, _) := ?x in _) = _ => destruct x eqn:?
    end.
Ltac use_drop H :=
  match type of H with
  | context [drop ?k ?n] => destruct (drop k n); cbn [bind] in H; try discriminate
  end.

Lemma ic_nil : items_clean []. Proof. intros e []. Qed.
Lemma ic_cons_e e l : clean e = true -> items_clean l -> items_clean (IExp e :: l).
Proof. intros H1 H2 x [Hx|Hx]; [inversion Hx; subst; auto | auto]. Qed.
Lemma ic_cons_t t l : items_clean l -> items_clean (ITok t :: l).
Proof. intros H2 x [Hx|Hx]; [discriminate | auto]. Qed.
Lemma ic_inv_e e l : items_clean (IExp e :: l) -> clean e = true /\ items_clean l.
Proof. intros H. split; [apply H; left; reflexivity | intros x Hx; apply H; right; assumption]. Qed.
Lemma ic_inv_t t l : items_clean (ITok t :: l) -> items_clean l.
Proof. intros H x Hx; apply H; right; assumption. Qed.
Lemma ic_app a b : items_clean (a ++ b) <-> items_clean a /\ items_clean b.
Proof. unfold ParserScope.items_clean. split.
  - intros H. split; intros x Hx; apply H; apply in_or_app; auto.
  - intros [Ha Hb] x Hx. apply in_app_or in Hx. destruct Hx; auto.
Qed.
Ltac ic_hyps :=
  repeat match goal with
  | H : items_clean (IExp _ :: _) |- _ => apply ic_inv_e in H; destruct H as [? H]
  | H : items_clean (ITok _ :: _) |- _ => apply ic_inv_t in H
  end.
Ltac rw_clean := repeat match goal with Hx : clean ?x = true |- context [Scope.clean f ?x] => rewrite Hx end.
Ltac fin H := inversion H; subst; apply ic_cons_e; [|apply ic_nil].

Lemma clean_bin op a b : clean (empty_e (VExp a) op (VExp b)) = clean a && clean b. Proof. reflexivity. Qed.
Lemma clean_un op a : clean (empty_e (VExp a) op VNil) = clean a && true. Proof. reflexivity. Qed.
Lemma clean_pow op a b z : clean (E (VExp a) op VNil b z) = clean a && true. Proof. reflexivity. Qed.
Lemma clean_range t a b i : clean (empty_e (VExp t) Range (VBound (VExp a) (VExp b) i)) = clean t && (clean a && clean b). Proof. reflexivity. Qed.
Lemma cl_forallb (l : list expr) :
  (fix cl (l : list expr) : bool := match l with [] => true | x :: r => clean x && cl r end) l = forallb clean l.
Proof. induction l as [|x xs IH]; cbn; auto; try (rewrite IH; reflexivity). Qed.
Lemma clean_in t l : clean (empty_e (VExp t) Tables.In (VExp (empty_e (VList l) Tables.List VNil))) = clean t && (forallb clean l && true).
Proof. rewrite <- cl_forallb. reflexivity. Qed.
Ltac cl := rewrite ?clean_in, ?clean_range, ?clean_bin, ?clean_un, ?clean_pow;
           rewrite ?(ParserScope.clean_colwrap f) by assumption; rw_clean; try reflexivity.

Lemma wrap_B e : wrap_literal e ""%string = Ret e. Proof. reflexivity. Qed.

(* one lemma for all reducers, run without a default field *)
Lemma reducer_clean : forall rd, In rd (reducers o) -> forall top nts top' nts',
  items_clean top -> rd top nts ""%string = Some (Ret (top', nts')) -> items_clean top'.
Proof.
  intros rd Hin top nts top' nts' HC H.
  unfold reducers in Hin. simpl in Hin.
  destruct Hin as [<-|Hin].
  { unfold r_and_or in H. shape H. apply ParserShape.Some_inj in H. ic_hyps. rewrite !wrap_B in H. cbn [bind] in H.
    rewrite ParserShape.expr_new_bin in H by auto. cbn [bind] in H. use_drop H. fin H. cl. }
  destruct Hin as [<-|Hin].
  { unfold r_and_or in H. shape H. apply ParserShape.Some_inj in H. ic_hyps. rewrite !wrap_B in H. cbn [bind] in H.
    rewrite ParserShape.expr_new_bin in H by auto. cbn [bind] in H. use_drop H. fin H. cl. }
  destruct Hin as [<-|Hin].
  { unfold r_equal in H. shape H. apply ParserShape.Some_inj in H. ic_hyps.
    match type of H with (if ?c then _ else _) = _ => destruct c eqn:EC end.
    - rewrite ParserShape.expr_new_list in H. cbn [bind] in H. rewrite ParserShape.expr_new_in in H. cbn [bind] in H. use_drop H. fin H.
      assert (HL : forallb clean l2 = true) by (eapply (ParserScope.chained_clean f); eauto).
      cl. rewrite HL. reflexivity.
    - unfold eq_ in H. rewrite ParserShape.expr_new_field in H by tauto. cbn [bind] in H. use_drop H. fin H.
      cl. }
  destruct Hin as [<-|Hin].
  { unfold r_compare in H. shape H. apply ParserShape.Some_inj in H. ic_hyps.
    rewrite ParserShape.expr_new_field in H by (destruct (is TGreater t0); tauto). cbn [bind] in H. use_drop H. fin H.
    cl. }
  destruct Hin as [<-|Hin].
  { unfold r_compare_eq in H. shape H. apply ParserShape.Some_inj in H. ic_hyps.
    rewrite ParserShape.expr_new_field in H by (destruct (is TGreater t0); tauto). cbn [bind] in H. use_drop H. fin H.
    cl. }
  destruct Hin as [<-|Hin].
  { unfold r_not in H.
    destruct (split_last2 top) as [[[p a] b]|] eqn:E; try discriminate.
    destruct a as [t|]; try discriminate. destruct b as [|x]; try discriminate.
    destruct (is TNot t); try discriminate. apply ParserShape.Some_inj in H.
    assert (Htop : forall (l : list item) p a b, split_last2 l = Some (p, a, b) -> l = p ++ [a; b]).
    { clear. induction l as [|h l IH]; intros p a b E; [discriminate|].
      destruct l as [|y l]; [discriminate|]. destruct l as [|z l].
      - inversion E; subst. reflexivity.
      - change (split_last2 (h :: y :: z :: l)) with
          (match split_last2 (y :: z :: l) with Some (p0, a0, b0) => Some (h :: p0, a0, b0) | None => None end) in E.
        destruct (split_last2 (y :: z :: l)) as [[[p' a'] b']|] eqn:E'; try discriminate.
        inversion E; subst. rewrite (IH p' a b eq_refl). reflexivity. }
    apply Htop in E. subst top. apply ic_app in HC. destruct HC as [Hp Hr]. ic_hyps.
    rewrite wrap_B in H. cbn [bind] in H. rewrite ParserShape.expr_new_un in H by tauto. cbn [bind] in H. use_drop H. inversion H; subst.
    apply ic_app. split; auto. apply ic_cons_e; [|apply ic_nil]. cl. }
  destruct Hin as [<-|Hin].
  { unfold r_sub in H. shape H. apply ParserShape.Some_inj in H. ic_hyps. use_drop H. fin H. assumption. }
  destruct Hin as [<-|Hin].
  { unfold r_prefix in H. shape H. apply ParserShape.Some_inj in H. ic_hyps. rewrite wrap_B in H. cbn [bind] in H.
    rewrite ParserShape.expr_new_un in H by tauto. cbn [bind] in H. use_drop H. fin H. cl. }
  destruct Hin as [<-|Hin].
  { unfold r_prefix in H. shape H. apply ParserShape.Some_inj in H. ic_hyps. rewrite wrap_B in H. cbn [bind] in H.
    rewrite ParserShape.expr_new_un in H by tauto. cbn [bind] in H. use_drop H. fin H. cl. }
  destruct Hin as [<-|Hin].
  { unfold r_fuzzy in H. shape H; apply ParserShape.Some_inj in H; ic_hyps; rewrite wrap_B in H; cbn [bind] in H;
      rewrite ParserShape.expr_new_fuzzy in H; cbn [bind] in H; use_drop H; fin H; cl. }
  destruct Hin as [<-|Hin].
  { unfold r_boost in H. shape H; apply ParserShape.Some_inj in H; ic_hyps; rewrite wrap_B in H; cbn [bind] in H;
      rewrite ParserShape.expr_new_boost in H; cbn [bind] in H; use_drop H; fin H; cl. }
  destruct Hin as [<-|Hin].
  { unfold r_range in H. shape H. apply ParserShape.Some_inj in H. ic_hyps.
    rewrite ParserShape.expr_new_range in H. cbn [bind] in H. use_drop H. fin H.
    cl. }
  contradiction.
Qed.


Lemma try_reducers_clean : forall rds, (forall rd, In rd rds -> In rd (reducers o)) -> forall top nts top' nts',
  items_clean top -> try_reducers rds top nts ""%string = Some (Ret (top', nts')) -> items_clean top'.
Proof.
  induction rds as [|rd rds IH]; intros Hsub top nts top' nts' HC H; cbn in H; try discriminate.
  destruct (rd top nts ""%string) eqn:E.
  - apply ParserShape.Some_inj in H. subst. eapply reducer_clean; eauto. apply Hsub; left; reflexivity.
  - eapply IH; eauto. intros. apply Hsub. right. assumption.
Qed.

Lemma ic_rev_append a b : items_clean a -> items_clean b -> items_clean (rev_append a b).
Proof.
  revert b. induction a as [|x a IH]; intros b Ha Hb; cbn; auto.
  apply IH.
  - intros e He. apply Ha. right. assumption.
  - destruct x as [t|e]; [apply ic_cons_t; auto | apply ic_cons_e; auto; apply Ha; left; reflexivity].
Qed.

Lemma reduce_clean : forall r top nts r' nts', items_clean r -> items_clean top ->
  reduce_loop o r top nts ""%string = ROk r' nts' -> items_clean r'.
Proof.
  induction r as [|x r IH]; intros top nts r' nts' Hr Ht H; cbn [reduce_loop] in H; try discriminate.
  assert (Hst : items_clean (x :: top)).
  { destruct x as [t|e]; [apply ic_cons_t; auto | apply ic_cons_e; auto; apply Hr; left; reflexivity]. }
  assert (Hr' : items_clean r) by (intros e He; apply Hr; right; assumption).
  destruct (try_reducers (reducers o) (x :: top) nts ""%string) as [[[t n]|]|] eqn:E; try discriminate.
  - inversion H; subst. apply ic_rev_append.
    + exact (try_reducers_clean (reducers o) (fun _ h => h) (x :: top) nts t nts' Hst E).
    + exact Hr'.
  - exact (IH (x :: top) nts r' nts' Hr' Hst H).
Qed.

(* ---------- simulation of one step ---------- *)
Definition map_cfg (c : cfg) : cfg :=
  {| rs := map sci_item (rs c); ns := ns c; toks := toks c; pend := option_map sci (pend c) |}.
Definition map_res (x : res) : res :=
  match x with Next c => Next (map_cfg c) | Accept e => Accept (scope e) | Reject => Reject | Crash s => Crash s end.

Definition tokens_clean (ts : list token) : Prop := forall t, In t ts -> clean (parse_literal o t) = true.
Definition cfg_ok (c : cfg) : Prop :=
  ParserShape2.cfg_wf c /\ items_clean (rs c) /\ (match pend c with Some l => clean l = true | None => True end) /\ tokens_clean (toks c).

Lemma scw_nonleaf e : is_leaf_op (e_op e) = false -> Build.scw f e = e.
Proof. intros H. unfold Build.scw. rewrite H. destruct (String.eqb f ""); reflexivity. Qed.

Lemma sci_parse_literal t : sci (parse_literal o t) = parse_literal o t.
Proof.
  apply (ParserScope.sci_leaf f). pose proof (ParserShape.parse_literal_leaf o t) as HL.
  destruct (parse_literal o t) as [l0 op0 r0 b0 z0]. destruct op0, l0, r0; cbn in HL |- *; try discriminate; reflexivity.
Qed.

Lemma step_commute c : cfg_ok c -> step o f (map_cfg c) = map_res (step o ""%string c).
Proof.
  intros ((HW & HP) & HC & HPc & HT). destruct c as [r n tk p]. cbn [rs ns toks pend] in *.
  unfold step, map_cfg. cbn [pend ns rs toks].
  assert (HR : do_reduce o {| rs := map sci_item r; ns := n; toks := tk; pend := option_map sci p |} f =
               map_res (do_reduce o {| rs := r; ns := n; toks := tk; pend := p |} ""%string)).
  { unfold do_reduce. cbn [rs ns toks pend].
    change (@nil item) with (map sci_item []) at 1.
    rewrite (ParserScope.reduce_commute o f f_nonempty) by (auto using ParserShape.items_wf_nil, ic_nil).
    destruct (reduce_loop o r [] n ""%string); reflexivity. }
  destruct p as [l|]; cbn [option_map].
  - destruct (should_shift n impl_and) as [[|]|s]; [reflexivity | exact HR | reflexivity].
  - rewrite map_length.
    destruct (is TEOF (hd eof tk) && Nat.eqb (List.length r) 1).
    + destruct r as [|[t|e] [|? ?]]; try reflexivity. cbn [map sci_item].
      rewrite (ParserScope.sci_op f). rewrite f_nonempty. cbn [negb]. rewrite andb_true_r.
      assert (Hb : is_leaf_op (e_op e) && negb (String.eqb "" "") = false) by (rewrite andb_false_r; reflexivity).
      rewrite Hb. cbn [map_res]. unfold Scope.scope.
      destruct (is_leaf_op (e_op e)) eqn:L.
      * unfold eq_. rewrite ParserShape.expr_new_dfcol. unfold Build.scw. rewrite f_nonempty, (ParserScope.sci_op f), L. reflexivity.
      * rewrite scw_nonleaf by (rewrite (ParserScope.sci_op f); exact L). reflexivity.
    + destruct (should_shift n (hd eof tk)) as [[|]|s]; [| exact HR | reflexivity].
      destruct (is_terminal (hd eof tk)).
      * destruct r as [|[?|?] ?]; unfold map_res, map_cfg; cbn [map sci_item rs ns toks pend option_map];
          rewrite ?sci_parse_literal; reflexivity.
      * reflexivity.
Qed.


Lemma tokens_clean_tl ts : tokens_clean ts -> tokens_clean (tl ts).
Proof. intros H t Ht. apply H. destruct ts; [contradiction|right; assumption]. Qed.

Lemma step_ok c : cfg_ok c -> match step o ""%string c with Next c' => cfg_ok c' | _ => True end.
Proof.
  intros (HW & HC & HPc & HT).
  pose proof (ParserShape2.step_wf o ""%string c HW) as SW.
  destruct c as [r n tk p]. cbn [rs ns toks pend] in *. unfold step in *. cbn [pend ns rs toks] in *.
  assert (HR : match do_reduce o {| rs := r; ns := n; toks := tk; pend := p |} ""%string with
               | Next c' => items_clean (rs c') /\ (match pend c' with Some l => clean l = true | None => True end) /\ tokens_clean (toks c')
               | _ => True end).
  { unfold do_reduce. cbn [rs ns toks pend]. destruct (reduce_loop o r [] n ""%string) eqn:E; auto.
    cbn [rs pend toks]. repeat split; auto. exact (reduce_clean r [] n rstack nts HC ic_nil E). }
  destruct p as [l|].
  - destruct (should_shift n impl_and) as [[|]|s]; auto.
    + split; [exact SW|]. cbn [rs pend toks]. repeat split; auto. apply ic_cons_e; auto. apply ic_cons_t; auto.
    + destruct (do_reduce o _ ""%string); auto. split; [exact SW | exact HR].
  - destruct (is TEOF (hd eof tk) && Nat.eqb (List.length r) 1).
    + destruct r as [|[?|e] [|? ?]]; auto. destruct (is_leaf_op (e_op e) && negb (String.eqb "" "")); auto.
      destruct (eq_ (VCol ""%string) (VExp e)); auto.
    + destruct (should_shift n (hd eof tk)) as [[|]|s] eqn:SS; auto.
      * assert (Htk : tk <> []).
        { intros ->. cbn in SS. unfold should_shift in SS. cbn in SS. discriminate. }
        destruct tk as [|t0 tk']; [contradiction|]. cbn [hd tl] in *.
        assert (Ct0 : clean (parse_literal o t0) = true) by (apply HT; left; reflexivity).
        assert (HT' : tokens_clean tk') by (intros t Ht; apply HT; right; assumption).
        destruct (is_terminal t0).
        -- destruct r as [|[?|?] ?]; (split; [exact SW|]); cbn [rs pend toks]; repeat split; auto;
             try (apply ic_cons_e; auto).
        -- split; [exact SW|]. cbn [rs pend toks]. repeat split; auto. apply ic_cons_t; auto.
      * destruct (do_reduce o _ ""%string); auto. split; [exact SW | exact HR].
Qed.

Definition map_pres (x : presult) : presult := match x with PTree e => PTree (scope e) | r => r end.

Lemma run_commute : forall fuel c, cfg_ok c -> run o fuel f (map_cfg c) = map_pres (run o fuel ""%string c).
Proof.
  induction fuel as [|k IH]; intros c HO; [reflexivity|].
  cbn [run]. rewrite step_commute by assumption.
  pose proof (step_ok c HO) as HS.
  destruct (step o ""%string c) as [c'|e| |s]; cbn [map_res map_pres]; try reflexivity.
  apply IH. exact HS.
Qed.

(* ---------- validation does not see the scoping ---------- *)
Lemma validate_scw e : validate (Build.scw f e) = validate e.
Proof.
  unfold Build.scw. rewrite f_nonempty. destruct (is_leaf_op (e_op e)) eqn:L; [|reflexivity].
  destruct e as [l op r b z]. cbn in L.
  destruct op; try discriminate; cbn [should_use_like e_op];
    cbn [validate validate_node e_op e_left e_right empty_e lit is_literal_expr is_leaf_op is_literal is_nil is_bound andb negb];
    rewrite ?andb_true_r; reflexivity.
Qed.


Lemma lit_expr_sci t : is_literal_expr (VExp (sci t)) = is_literal_expr (VExp t).
Proof.
  unfold is_literal_expr. rewrite (ParserScope.sci_op f). destruct (is_leaf_op (e_op t)) eqn:L; [|reflexivity].
  rewrite (ParserScope.sci_leaf f t L). reflexivity.
Qed.

Lemma validate_sci : forall n e, esize e <= n -> validate (sci e) = validate e.
Proof.
  induction n as [|n IH]; intros e Hs; [destruct e; cbn in Hs; lia|].
  assert (IHs : forall x, esize x <= n -> validate (Build.scw f (sci x)) = validate x).
  { intros x Hx. rewrite validate_scw. apply IH. exact Hx. }
  destruct e as [l op r b z].
  destruct l as [| | | | | | x | |]; try (destruct op; reflexivity).
  destruct op; cbn [Scope.sci]; try reflexivity.
  all: try (destruct r as [| | | | | | y | |]; try reflexivity; cbn in Hs;
            cbn [validate validate_node e_op e_left e_right is_nil is_bound negb andb];
            rewrite ?lit_expr_sci, ?(ParserScope.sci_op f), ?IHs, ?IH by lia; reflexivity).
  all: try (destruct r; try reflexivity; cbn in Hs;
            cbn [validate validate_node e_op e_left e_right is_nil is_bound negb andb];
            rewrite ?lit_expr_sci, ?IHs, ?IH by lia; reflexivity).
  - (* Range *)
    destruct r as [| | | | | | | |mn mx i]; try reflexivity.
    destruct mn as [| | | | | | a | |]; try reflexivity. destruct mx as [| | | | | | c | |]; try reflexivity.
    cbn [validate validate_node e_op e_left e_right is_nil is_bound negb andb]. rewrite !lit_expr_sci. cbn in Hs. rewrite (IH x) by lia. reflexivity.
Qed.

Lemma validate_scope e : validate (scope e) = validate e.
Proof. unfold Scope.scope. rewrite validate_scw. apply (validate_sci (esize e)). lia. Qed.

(* C11: with a default field that does not otherwise occur, the result is the plain result with its bare
   terms scoped; acceptance is the same. *)
Theorem C11_scope : forall ts, tokens_clean ts ->
  parse_toks o f ts = map_pres (parse_toks o ""%string ts).
Proof.
  intros ts HT. unfold parse_toks.
  pose proof (run_commute (4 * List.length ts + 4) {| rs := []; ns := [start]; toks := ts; pend := None |}) as HR.
  unfold map_cfg in HR. cbn [rs ns toks pend map option_map] in HR. rewrite HR.
  - destruct (run o (4 * List.length ts + 4) ""%string _) as [e| | |]; cbn [map_pres]; try reflexivity.
    rewrite validate_scope. destruct (validate e); reflexivity.
  - repeat split; cbn; auto using ParserShape.items_wf_nil, ic_nil.
Qed.
Print Assumptions C11_scope.

End C11b.
