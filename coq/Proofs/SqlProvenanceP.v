(* C04 / C02: in the parameterized SQL of a fragment tree (Spec/SqlFragP.trp) no value appears in the text at all: the expression
   PostgreSQL reads holds no string constant and no numeric constant, only column references (field names of the query) and
   placeholders; the placeholders are exactly $k, $k+1, ... in order, one per parameter. *)
Require Import Parser ParserShape Render PgModel QuerySem SqlSem SqlFrag SqlFragP SqlProvenance.
From Coq Require Import List Ascii String ZArith Bool Lia Arith.
Import ListNotations.

Fixpoint consts_of (a : ast) : list ast :=
  match a with
  | AStr _ | ANum _ _ => [a]
  | ABool _ l => flat_map consts_of l
  | ANot x | AUnary _ x => consts_of x
  | AOp _ x y | ASimilar x y => consts_of x ++ consts_of y
  | ABetween x lo hi => consts_of x ++ consts_of lo ++ consts_of hi
  | AIn x l => consts_of x ++ flat_map consts_of l
  | _ => []
  end.
Fixpoint params_of (a : ast) : list bytes :=
  match a with
  | AParam k => [k]
  | ABool _ l => flat_map params_of l
  | ANot x | AUnary _ x => params_of x
  | AOp _ x y | ASimilar x y => params_of x ++ params_of y
  | ABetween x lo hi => params_of x ++ params_of lo ++ params_of hi
  | AIn x l => params_of x ++ flat_map params_of l
  | _ => []
  end.

Fixpoint pnums (k n : nat) : list bytes := match n with 0 => [] | S n' => pnum k :: pnums (S k) n' end.
Lemma pnums_app k n m : pnums k (n + m) = pnums k n ++ pnums (k + n) m.
Proof. revert k. induction n as [|n IH]; intros k; cbn [pnums Nat.add app]; [rewrite Nat.add_0_r; reflexivity|]. rewrite IH. replace (S k + n) with (k + S n) by lia. reflexivity. Qed.

Lemma consts_mk_and a b : consts_of (mk_and a b) = consts_of a ++ consts_of b.
Proof.
  unfold mk_and. destruct a as [?|?|? ?|?|ia args|?|? ? ?|? ?|? ?|? ? ?|? ?]; try destruct ia;
    cbn [consts_of flat_map]; rewrite ?flat_map_app; cbn [flat_map]; rewrite ?app_nil_r; reflexivity.
Qed.
Lemma consts_mk_or a b : consts_of (mk_or a b) = consts_of a ++ consts_of b.
Proof.
  unfold mk_or. destruct a as [?|?|? ?|?|ia args|?|? ? ?|? ?|? ?|? ? ?|? ?]; try destruct ia;
    cbn [consts_of flat_map]; rewrite ?flat_map_app; cbn [flat_map]; rewrite ?app_nil_r; reflexivity.
Qed.
Lemma params_mk_and a b : params_of (mk_and a b) = params_of a ++ params_of b.
Proof.
  unfold mk_and. destruct a as [?|?|? ?|?|ia args|?|? ? ?|? ?|? ?|? ? ?|? ?]; try destruct ia;
    cbn [params_of flat_map]; rewrite ?flat_map_app; cbn [flat_map]; rewrite ?app_nil_r; reflexivity.
Qed.
Lemma params_mk_or a b : params_of (mk_or a b) = params_of a ++ params_of b.
Proof.
  unfold mk_or. destruct a as [?|?|? ?|?|ia args|?|? ? ?|? ?|? ?|? ? ?|? ?]; try destruct ia;
    cbn [params_of flat_map]; rewrite ?flat_map_app; cbn [flat_map]; rewrite ?app_nil_r; reflexivity.
Qed.

Lemma param_asts_consts k n : flat_map consts_of (param_asts k n) = [].
Proof. revert k. induction n as [|n IH]; intros k; [reflexivity|]. cbn [param_asts flat_map consts_of app]. apply IH. Qed.
Lemma param_asts_params k n : flat_map params_of (param_asts k n) = pnums k n.
Proof. revert k. induction n as [|n IH]; intros k; [reflexivity|]. cbn [param_asts flat_map params_of app pnums]. rewrite IH. reflexivity. Qed.

Lemma consts_param_len l : forall vs, consts_param l = Some vs -> List.length vs = List.length l.
Proof.
  induction l as [|x l IH]; intros vs C; cbn in C; [inversion C; reflexivity|].
  destruct (const_param x); [|discriminate]. destruct (consts_param l) as [vs'|]; [|discriminate]. inversion C; subst. cbn. rewrite (IH vs' eq_refl). reflexivity.
Qed.

Theorem trp_no_constants_sz : forall n e, esize e <= n -> forall k ts a ps, trp e k = Some (ts, a, ps) ->
  consts_of a = [] /\ params_of a = pnums k (List.length ps).
Proof.
  induction n as [|n IH]; intros e Hn k ts a ps T; [destruct e; cbn in Hn; lia|].
  destruct e as [l op rt b fz]. cbn [esize] in Hn. cbn [trp] in T.
  destruct op; try discriminate.
  - destruct l as [ |?|?|?|?|?|x|?|? ? ?]; try discriminate. destruct rt as [ |?|?|?|?|?|y|?|? ? ?]; try discriminate.
    destruct (trp x k) as [[[tx ax] px]|] eqn:Tx; [|discriminate]. destruct (trp y (k + List.length px)) as [[[ty ay] py]|] eqn:Ty; [|discriminate].
    injection T as <- <- <-. cbn [vsize] in Hn.
    destruct (IH x ltac:(lia) k tx ax px Tx) as [Cx Px]. destruct (IH y ltac:(lia) _ ty ay py Ty) as [Cy Py].
    rewrite consts_mk_and, params_mk_and, Cx, Cy, Px, Py, app_length, pnums_app. split; reflexivity.
  - destruct l as [ |?|?|?|?|?|x|?|? ? ?]; try discriminate. destruct rt as [ |?|?|?|?|?|y|?|? ? ?]; try discriminate.
    destruct (trp x k) as [[[tx ax] px]|] eqn:Tx; [|discriminate]. destruct (trp y (k + List.length px)) as [[[ty ay] py]|] eqn:Ty; [|discriminate].
    injection T as <- <- <-. cbn [vsize] in Hn.
    destruct (IH x ltac:(lia) k tx ax px Tx) as [Cx Px]. destruct (IH y ltac:(lia) _ ty ay py Ty) as [Cy Py].
    rewrite consts_mk_or, params_mk_or, Cx, Cy, Px, Py, app_length, pnums_app. split; reflexivity.
  - destruct (field_of l); [|discriminate]. destruct rt as [ |?|?|?|?|?|lf|?|? ? ?]; try discriminate. cbn [cmp_text] in T.
    destruct (const_param lf); [|discriminate]. injection T as <- <- <-. split; reflexivity.
  - destruct (field_of l); [|discriminate]. destruct rt as [ |?|?|?|?|?|p|?|? ? ?]; try discriminate. destruct p as [l2 op2 r2 b2 f2].
    destruct l2; try discriminate; destruct op2; try discriminate; destruct r2; try discriminate.
    match goal with T : context [is_regex_text ?p] |- _ => destruct (is_regex_text p); [discriminate|] end. injection T as <- <- <-. split; reflexivity.
  - destruct l as [ |?|?|?|?|?|x|?|? ? ?]; try discriminate. destruct rt; try discriminate.
    destruct (trp x k) as [[[tx ax] px]|] eqn:Tx; [|discriminate]. injection T as <- <- <-. cbn [vsize] in Hn.
    cbn [consts_of params_of]. apply (IH x ltac:(lia) k tx ax px Tx).
  - destruct (field_of l); [|discriminate]. destruct rt as [ |?|?|?|?|?|?|?|lo hi incl]; try discriminate. cbv zeta in T.
    destruct (int_bound lo); destruct (int_bound hi); destruct (is_star lo); destruct (is_star hi); try discriminate; injection T as <- <- <-; split; reflexivity.
  - destruct l as [ |?|?|?|?|?|x|?|? ? ?]; try discriminate. destruct rt; try discriminate. cbn [vsize] in Hn. apply (IH x ltac:(lia) k ts a ps T).
  - destruct l as [ |?|?|?|?|?|x|?|? ? ?]; try discriminate. destruct rt; try discriminate.
    destruct (trp x k) as [[[tx ax] px]|] eqn:Tx; [|discriminate]. injection T as <- <- <-. cbn [vsize] in Hn.
    cbn [consts_of params_of]. apply (IH x ltac:(lia) k tx ax px Tx).
  - destruct (field_of l); [|discriminate]. destruct rt as [ |?|?|?|?|?|lf|?|? ? ?]; try discriminate. cbn [cmp_text] in T.
    destruct (const_param lf); [|discriminate]. injection T as <- <- <-. split; reflexivity.
  - destruct (field_of l); [|discriminate]. destruct rt as [ |?|?|?|?|?|lf|?|? ? ?]; try discriminate. cbn [cmp_text] in T.
    destruct (const_param lf); [|discriminate]. injection T as <- <- <-. split; reflexivity.
  - destruct (field_of l); [|discriminate]. destruct rt as [ |?|?|?|?|?|lf|?|? ? ?]; try discriminate. cbn [cmp_text] in T.
    destruct (const_param lf); [|discriminate]. injection T as <- <- <-. split; reflexivity.
  - destruct (field_of l); [|discriminate]. destruct rt as [ |?|?|?|?|?|lf|?|? ? ?]; try discriminate. cbn [cmp_text] in T.
    destruct (const_param lf); [|discriminate]. injection T as <- <- <-. split; reflexivity.
  - destruct (field_of l); [|discriminate]. destruct rt as [ |?|?|?|?|?|p|?|? ? ?]; try discriminate. destruct p as [l2 op2 r2 b2 f2].
    destruct l2 as [ |?|?|?|?|?|?|lits|? ? ?]; try discriminate. destruct lits as [|x lits]; try discriminate.
    destruct op2; try discriminate; destruct r2; try discriminate.
    destruct (consts_param (x :: lits)) as [vs|] eqn:C; [|discriminate]. injection T as <- <- <-.
    cbn [consts_of params_of app]. rewrite param_asts_consts, param_asts_params. split; reflexivity.
Qed.

Theorem trp_no_constants e ts a ps : trp e 1 = Some (ts, a, ps) -> consts_of a = [] /\ params_of a = pnums 1 (List.length ps).
Proof. intros T. apply (trp_no_constants_sz (esize e) e (le_n _) 1 ts a ps T). Qed.
