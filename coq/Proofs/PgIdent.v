(* Scratch: C02 — a column name without a double quote, written between double quotes, is read by the
   PostgreSQL scanner model as exactly one identifier token (truncated to 63 bytes: K9) *)
Require Import PgModel.
From Coq Require Import List Ascii String NArith Bool Arith Lia.
Import ListNotations.

Notation dq := """"%char.

Lemma quoted_body_plain : forall v fuel rest acc,
  forallb (fun c => negb (Ascii.eqb c dq)) v = true ->
  List.length v + 2 <= fuel ->
  (match rest with c :: _ => Ascii.eqb c dq = false | [] => True end) ->
  quoted_body fuel dq (v ++ dq :: rest) acc = Some (rev acc ++ v, rest).
Proof.
  induction v as [|c r IH]; intros fuel rest acc Hv Hf Hr.
  - cbn [app]. destruct fuel as [|f]; [cbn in Hf; lia|].
    unfold quoted_body; fold quoted_body. change (Ascii.eqb dq dq) with true. cbv iota. destruct rest as [|c2 r2].
    + rewrite app_nil_r. reflexivity.
    + rewrite Hr. rewrite app_nil_r. reflexivity.
  - cbn [forallb] in Hv. apply andb_true_iff in Hv. destruct Hv as [Hc Hr']. apply negb_true_iff in Hc.
    cbn [app List.length] in *. destruct fuel as [|f]; [lia|]. unfold quoted_body; fold quoted_body. rewrite Hc.
    rewrite IH; [|exact Hr'|lia|exact Hr]. cbn [rev]. rewrite <- app_assoc. reflexivity.
Qed.

Arguments quoted_body : simpl never.
Arguments truncate_ident : simpl never.

Theorem ident_roundtrip : forall c0 v rest,
  forallb (fun c => negb (Ascii.eqb c dq)) (c0 :: v) = true ->
  (match rest with c :: _ => Ascii.eqb c dq = false | [] => True end) ->
  next (dq :: (c0 :: v) ++ dq :: rest) = Some (TIdent (truncate_ident (c0 :: v)), rest).
Proof.
  intros c0 v rest Hv Hr.
  assert (HQ : quoted_body (S (List.length ((c0 :: v) ++ dq :: rest))) dq ((c0 :: v) ++ dq :: rest) [] = Some (c0 :: v, rest)).
  { rewrite quoted_body_plain; auto. rewrite app_length. cbn. lia. }
  unfold next. lazy -[quoted_body truncate_ident app List.length]. rewrite HQ. reflexivity.
Qed.
Print Assumptions ident_roundtrip.
