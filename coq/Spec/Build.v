(* Pure views of what the expr constructors build; scw = default-field scoping of one leaf *)
Require Import Parser Shape.
From Coq Require Import List String ZArith Bool Lia Arith.
Import ListNotations.
Close Scope string_scope.
Open Scope nat_scope.

Definition term_tok (t : token) : bool := match typ t with TLiteral | TQuoted | TRegexp => true | _ => false end.

(* pure views of what the constructors build *)
Definition scw (df : string) (e : expr) : expr :=
  if String.eqb df "" then e
  else if is_leaf_op (e_op e)
       then empty_e (VExp (lit (VCol df))) (if should_use_like (VExp e) then Like else Equals) (VExp e)
       else e.
Definition eqx (f v : expr) : expr := empty_e (VExp (colwrap f)) (if should_use_like (VExp v) then Like else Equals) (VExp v).
Definition cmpx (op : operator) (f v : expr) : expr := empty_e (VExp (colwrap f)) op (VExp v).
Definition rangex (f a b : expr) (incl : bool) : expr := empty_e (VExp (colwrap f)) Range (VBound (VExp a) (VExp b) incl).
Definition inx (f : expr) (lits : list expr) : expr := empty_e (VExp (colwrap f)) Tables.In (VExp (empty_e (VList lits) Tables.List VNil)).
Definition mk2 (op : operator) (l r : expr) : expr := empty_e (VExp l) op (VExp r).
Definition mk1 (op : operator) (l : expr) : expr := empty_e (VExp l) op VNil.
Definition mk_fuzzy (l : expr) (d : Z) : expr := E (VExp l) Fuzzy VNil one_bits d.
Definition mk_boost (l : expr) (f : Z) : expr := E (VExp l) Boost VNil f 1%Z.

