(* C09 (redundant parentheses): two printed trees that differ only in parenthesis nodes parse to the same tree *)
Require Import Parser ParserShape ParserLay ParserRoundTrip ParserRoundTripV.
Require Import Printer.
From Coq Require Import List String ZArith Bool Lia Arith.
Import ListNotations.

Fixpoint strip (t : qt) : qt :=
  match t with
  | QPar a => strip a
  | QFe f ct a => QFe f ct (strip a)
  | QAnd a b => QAnd (strip a) (strip b)
  | QOr a b => QOr (strip a) (strip b)
  | QNot a => QNot (strip a)
  | QMust a => QMust (strip a)
  | QMustNot a => QMustNot (strip a)
  | QBoost a n => QBoost (strip a) n
  | QFuzzy a n => QFuzzy (strip a) n
  | _ => t
  end.

Lemma want_strip o : forall t, want o (strip t) = want o t.
Proof.
  induction t; cbn [strip want]; try reflexivity; try (rewrite ?IHt, ?IHt1, ?IHt2; reflexivity);
  destruct n; rewrite IHt; reflexivity.
Qed.

Lemma same_modulo_parens o t t' : wfq o t -> wfq o t' -> strip t = strip t' ->
  exists e k k', steps o k (mk [] [start] (pr t ++ [eof])) = Accept e /\ steps o k' (mk [] [start] (pr t' ++ [eof])) = Accept e.
Proof.
  intros W W' S. destruct (roundtrip o t W) as [k Hk]. destruct (roundtrip o t' W') as [k' Hk'].
  exists (want o t), k, k'. split; [exact Hk|]. rewrite Hk'. f_equal.
  rewrite <- (want_strip o t'), <- S, want_strip. reflexivity.
Qed.

(* the same at the level of parse_toks (parser loop and Validate) *)
Lemma same_parse_modulo_parens o t t' : wfq o t -> wfq o t' -> strip t = strip t' ->
  parse_toks o ""%string (pr t ++ [eof]) = parse_toks o ""%string (pr t' ++ [eof]) /\ parse_toks o ""%string (pr t ++ [eof]) = PTree (want o t).
Proof.
  intros W W' S. rewrite (printed_tree_parses o t W), (printed_tree_parses o t' W'). split; [|reflexivity].
  f_equal. rewrite <- (want_strip o t'), <- S, want_strip. reflexivity.
Qed.
