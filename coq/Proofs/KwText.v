(* C09 (keyword case), from the query text to the parse result: composition of LexKw.lex_kw (token streams of a text and its
   keyword-spelling variant agree up to the text of operator tokens) with ParserTokText (the parser reads only the type of such
   tokens); and the fact that makes it apply: a word of ASCII letters lexes alone as one token whose type depends only on the
   word up to letter case. *)
Require Import Lex LexProof LexFuel LexWs LexCtx LexCtx2 LexWsG LexField LexKw.
Require Parser Api ParserTokText LexCase.
From Coq Require Import List Ascii String NArith Bool Arith Lia.
Import ListNotations.

Section T.
Variable cl : classes.
Hypothesis dq_not_alnum : is_letter cl 34 = false /\ is_digit cl 34 = false.
Hypothesis colon_not_alnum : is_letter cl 58 = false /\ is_digit cl 58 = false.
Hypothesis ws_not_alnum : forall r, is_space r = true -> is_alnum cl r = false.
Hypothesis fffd_not_alnum : is_letter cl 65533 = false /\ is_digit cl 65533 = false.

Lemma word_proper k : proper {| typ := word_type k; val := k |}.
Proof. unfold proper, word_type. cbn [typ]. repeat match goal with |- context [if ?b then _ else _] => destruct b end; split; discriminate. Qed.

(* a word of letters, digits and underscores (ASCII) lexes alone, whatever its letter case *)
Lemma kw_clean c0 f : forallb (wordc cl) (c0 :: f) = true -> clean_g cl {| typ := word_type (c0 :: f); val := c0 :: f |}.
Proof.
  intros Hf. unfold clean_g. cbn [val].
  pose proof (next_word cl dq_not_alnum colon_not_alnum ws_not_alnum c0 f [] Hf) as H.
  assert (Ne : [":"%char] <> (@nil ascii)) by discriminate.
  apply (next_token_ctx_g cl ws_not_alnum {| typ := word_type (c0 :: f); val := c0 :: f |} [":"%char] [sp] Ne H (word_proper _)).
  - apply ws_hd. reflexivity.
  - split; intros _; [apply (ws_wstop cl ws_not_alnum)|apply (ws_nodigit cl ws_not_alnum)]; reflexivity.
Qed.

Lemma tok_of_same t t' : same_tok t t' -> ParserTokText.same_for_parser (Api.tok_of t) (Api.tok_of t').
Proof.
  intros [Ty Hv]. unfold ParserTokText.same_for_parser, Api.tok_of, Parser.is_terminal. cbn [Parser.typ Parser.val]. split; [exact Ty|].
  intros T. rewrite Hv; [reflexivity|]. unfold lterm. destruct (typ t); try discriminate; reflexivity.
Qed.

Theorem parse_kw (o : Parser.oracle) (df : string) (s s' : bytes) : kwvar cl s s' ->
  Api.parse o cl df (string_of_list_ascii s) = Api.parse o cl df (string_of_list_ascii s').
Proof.
  intros W. unfold Api.parse, Api.lex_tokens. rewrite !list_ascii_of_string_of_list_ascii.
  apply ParserTokText.token_text_is_irrelevant_outside_terms.
  pose proof (lex_kw cl ws_not_alnum fffd_not_alnum s s' W) as F.
  induction F as [|t t' l l' Ht _ IH]; cbn [map]; constructor; [apply tok_of_same; exact Ht|exact IH].
Qed.
End T.
Print Assumptions parse_kw.
