(* Scratch: C04(a) — placeholders outside quoted identifiers are counted by a two-state scan;
   lemmas to push the count through the renderers' string templates *)
Require Import Parser Render RenderStr RenderStr2.
Require Export Count.
From Coq Require Import List Ascii String ZArith Bool Lia Arith.
Import ListNotations.
Open Scope string_scope.

Lemma qst_app : forall a b i, qst i (a ++ b) = qst (qst i a) b.
Proof. induction a as [|c a IH]; intros b i; cbn; auto. Qed.
Lemma qcnt_app : forall a b i, qcnt i (a ++ b) = qcnt i a + qcnt (qst i a) b.
Proof. induction a as [|c a IH]; intros b i; cbn; auto. rewrite IH. lia. Qed.

(* text s is balanced and holds n placeholders *)
Definition holds (s : string) (n : nat) : Prop := qst false s = false /\ qcnt false s = n.

Lemma holds_app a b n m k : holds a n -> holds b m -> k = n + m -> holds (a ++ b) k.
Proof. intros [A1 A2] [B1 B2] ->. split; [rewrite qst_app, A1; exact B1|rewrite qcnt_app, A1, A2, B2; reflexivity]. Qed.
Lemma holds_const s : qst false s = false -> qcnt false s = 0 -> holds s 0.
Proof. split; assumption. Qed.
Lemma holds_wrap b s n : holds s n -> holds (wrap_if b s) n.
Proof.
  intros H. destruct b; cbn [wrap_if]; [|exact H].
  apply (holds_app "(" (s ++ ")") 0 n); [split; reflexivity| |reflexivity].
  apply (holds_app s ")" n 0); [exact H|split; reflexivity|lia].
Qed.

(* a quoted identifier holds nothing *)
Lemma inq_body : forall c, contains_char dq c = false -> qst true c = true /\ qcnt true c = 0.
Proof.
  induction c as [|x c IH]; cbn; [auto|]. intros H. apply orb_false_iff in H. destruct H as [Hx Hc].
  rewrite Hx. cbn. rewrite andb_false_r. apply IH. exact Hc.
Qed.
Lemma holds_column c : contains_char dq c = false -> holds (String dq (c ++ String dq "")) 0.
Proof.
  intros H. destruct (inq_body c H) as [S C]. split; cbn.
  - rewrite qst_app, S. reflexivity.
  - rewrite qcnt_app, S, C. reflexivity.
Qed.

(* Split / Trim on the two rendered bounds, exactly *)
Lemma split_app_comma : forall a b cur,
  split_comma (a ++ String ","%char b) cur = (split_comma a cur ++ split_comma b "")%list.
Proof.
  induction a as [|c a IH]; intros b cur; cbn [append split_comma].
  - rewrite Ascii.eqb_refl. reflexivity.
  - destruct (Ascii.eqb c ","%char); [rewrite IH; reflexivity|apply IH].
Qed.
Lemma split_single : forall s cur x, split_comma s cur = [x] -> x = cur ++ s.
Proof.
  induction s as [|c s IH]; intros cur x H; cbn [split_comma] in H.
  - inversion H. rewrite append_nil_r. reflexivity.
  - destruct (Ascii.eqb c ","%char).
    + destruct (split_first s "") as [t [l E]]. rewrite E in H. discriminate.
    + apply IH in H. rewrite H, append_assoc. reflexivity.
Qed.
Lemma split_two_exact smin smax a b :
  split_comma (smin ++ ", " ++ smax) "" = [a; b] -> a = smin /\ b = " " ++ smax.
Proof.
  change (smin ++ ", " ++ smax) with (smin ++ String ","%char (" " ++ smax)). rewrite split_app_comma.
  destruct (split_first smin "") as [t1 [l1 E1]]. destruct (split_first (" " ++ smax) "") as [t2 [l2 E2]].
  intros H. rewrite E1, E2 in H. cbn [app] in H.
  destruct l1 as [|y l1]; [|destruct l1; discriminate].
  destruct l2 as [|y l2]; [|discriminate].
  cbn in H. inversion H; subst. split; [exact (split_single _ _ _ E1)|exact (split_single _ _ _ E2)].
Qed.

Lemma trim_id q m q2 : Ascii.eqb q " "%char = false -> Ascii.eqb q2 " "%char = false ->
  trim (String q (m ++ String q2 "")) = String q (m ++ String q2 "").
Proof.
  intros H1 H2. unfold trim. rewrite trim_left_cons, H1. cbn [rev_str]. rewrite rev_str_app. cbn [rev_str].
  rewrite trim_left_cons, H2. change (String q2 (rev_str m (String q ""))) with (rev_str (String q (m ++ String q2 "")) "" ) at 1 || idtac.
  replace (String q2 (rev_str m (String q ""))) with (rev_str (String q (m ++ String q2 "")) "").
  - apply rev_str_invol.
  - cbn [rev_str]. rewrite rev_str_app. reflexivity.
Qed.
Lemma trim_space_id q m q2 : Ascii.eqb q " "%char = false -> Ascii.eqb q2 " "%char = false ->
  trim (" " ++ String q (m ++ String q2 "")) = String q (m ++ String q2 "").
Proof.
  intros H1 H2. unfold trim. cbn [append]. rewrite trim_left_cons. cbn [Ascii.eqb Bool.eqb]. cbv iota.
  exact (trim_id q m q2 H1 H2).
Qed.
Print Assumptions trim_space_id.
