export GOFLAGS=-mod=mod GOPROXY=off GOSUMDB=off GOTOOLCHAIN=local GOWORK=off
