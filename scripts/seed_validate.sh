#!/bin/bash
# seed_validate.sh <Cxx> <m1|m2> : confirm a sub-agent's mutant in its scratch worktree and store it under /verif/seeded
# (patch applies, full suite passes with it, demo fails with it, demo passes without it)
set -u
P=$1; M=$2; ROOT=${3:-/tmp/wt}; TAG=${4:-}; WT=$ROOT/$P; SRC=$ROOT/$P.out/$M; ID=${P}_${TAG}$M
. /verif/scripts/goenv.sh
cd $WT || exit 2
git checkout -q -- . && git clean -fdq
demo=$(ls $SRC/demo_test.go $SRC/demo/main.go 2>/dev/null | head -1)
pkg=$(grep -m1 '^package ' $demo | awk '{print $2}')
case $pkg in
  lucene|lucene_test) dir=. ;;
  driver|driver_test) dir=pkg/driver ;;
  expr|expr_test) dir=pkg/lucene/expr ;;
  reduce|reduce_test) dir=pkg/lucene/reduce ;;
  lex|lex_test) dir=internal/lex ;;
  fuzz|fuzz_test) dir=fuzz ;;
  *) echo "unknown demo package $pkg"; exit 2 ;;
esac
run_demo() { (cd $WT/$dir && cp $demo ./zz_demo_test.go && timeout 600 go test -count=1 -run "${RUNPAT:-TestC|Test.*[Dd]emo|TestM}" . >/tmp/seed_demo.out 2>&1; rc=$?; rm -f ./zz_demo_test.go; return $rc); }
git apply --check $SRC/patch.diff || { echo "$ID: patch does not apply"; exit 1; }
run_demo; clean_rc=$?
git apply $SRC/patch.diff
(go build ./... && go test -count=1 ./... && cd fuzz && go test -count=1 ./...) >/tmp/seed_suite.out 2>&1; suite_rc=$?
run_demo; mut_rc=$?
git checkout -q -- . && git clean -fdq
echo "$ID: suite_with_patch=$suite_rc demo_without=$clean_rc demo_with=$mut_rc dir=$dir"
if [ $suite_rc -eq 0 ] && [ $clean_rc -eq 0 ] && [ $mut_rc -ne 0 ]; then
  mkdir -p /verif/seeded/$ID && cp $SRC/patch.diff /verif/seeded/$ID/patch.diff && cp $demo /verif/seeded/$ID/ && cp $SRC/notes.md /verif/seeded/$ID/notes.md 2>/dev/null
  echo "$dir" > /verif/seeded/$ID/demo_dir.txt
  echo "$ID: CONFIRMED"
else
  echo "$ID: NOT CONFIRMED"; tail -5 /tmp/seed_demo.out
fi
