(* Model of the public entry points: lucene.Parse (lex + parse + Validate) and render.go's ToPostgres /
   ToParameterizedPostgres (Parse, then the package-level postgres driver). *)
Require Import Parser Render.
Require Lex.
From Coq Require Import List Ascii String ZArith Bool.
Import ListNotations.

Definition tok_of (t : Lex.token) : Parser.token :=
  {| Parser.typ := Lex.typ t; Parser.val := string_of_list_ascii (Lex.val t) |}.

Section Api.
Variable o : Parser.oracle.
Variable o2 : oracle2.
Variable cl : Lex.classes.

Definition lex_tokens (s : string) : list Parser.token := map tok_of (Lex.lex cl (list_ascii_of_string s)).

(* lucene.Parse(input, WithDefaultField(df)); df = "" is "no option" (the option with "" behaves identically) *)
Definition parse (df : string) (s : string) : presult := parse_toks o df (lex_tokens s).

Definition to_postgres (df : string) (s : string) : out sres :=
  match parse df s with
  | PTree e => render o2 e
  | PErr => Ret (""%string, Some "parse error"%string)
  | PPanic p => Panic p
  | POutOfFuel => Panic "out of fuel"%string
  end.

Definition to_param_postgres (df : string) (s : string) : out pres :=
  match parse df s with
  | PTree e => render_param o2 e
  | PErr => Ret (""%string, [], Some "parse error"%string)
  | PPanic p => Panic p
  | POutOfFuel => Panic "out of fuel"%string
  end.

End Api.
