(* C09 — Layout does not change meaning.  (keyword case and redundant parentheses; the whitespace clause is decided per case) *)
Require Import Parser Printer.
Require Lex.
Require Import ParserRoundTrip ParserParens.
Require LexCase.
From Coq Require Import List String.
Import ListNotations.

(* the token type of a word (AND / OR / NOT / TO / literal) is the same for any two words that agree up to ASCII letter case *)
Theorem C09_keyword_case : forall w w' : Lex.bytes,
  map Lex.upper_ascii w = map Lex.upper_ascii w' -> Lex.word_type w = Lex.word_type w'.
Proof. exact LexCase.word_type_case. Qed.

(* two printed trees (each with parentheses at least where the table requires them) that differ only in parenthesis nodes
   - around the whole query, around any operand, around a field's value - parse to one and the same tree *)
Theorem C09_redundant_parentheses : forall (o : oracle) (t t' : qt), wfq o t -> wfq o t' -> strip t = strip t' ->
  exists e k k', steps o k (mk [] [start] (pr t ++ [eof])) = Accept e /\ steps o k' (mk [] [start] (pr t' ++ [eof])) = Accept e.
Proof. exact same_modulo_parens. Qed.

Theorem C09_redundant_parentheses_same_parse : forall (o : oracle) (t t' : qt), wfq o t -> wfq o t' -> strip t = strip t' ->
  parse_toks o "" (pr t ++ [eof]) = parse_toks o "" (pr t' ++ [eof]) /\ parse_toks o "" (pr t ++ [eof]) = PTree (want o t).
Proof. exact same_parse_modulo_parens. Qed.

Print Assumptions C09_keyword_case.
Print Assumptions C09_redundant_parentheses_same_parse.
Print Assumptions C09_redundant_parentheses.
