(* Scratch prototype: faithful model of internal/lex/lex.go over bytes, UTF-8 decoding as in Go *)
From Coq Require Import List Ascii String NArith Bool Arith Lia.
Require Export Tables.
Import ListNotations.

Definition bytes := list ascii.
Definition bval (c : ascii) : N := N_of_ascii c.

(* ---------- utf8.DecodeRuneInString ---------- *)
Definition rune_error : N := 65533%N.
Definition in_range (lo hi x : N) : bool := (lo <=? x)%N && (x <=? hi)%N.
Definition cont (x : N) : bool := in_range 128 191 x.

(* returns (rune, width); None on empty input *)
Definition decode_rune (s : bytes) : option (N * nat) :=
  match s with
  | [] => None
  | c0 :: r =>
    let b0 := bval c0 in
    if (b0 <? 128)%N then Some (b0, 1) else
    let bad := Some (rune_error, 1) in
    if in_range 194 223 b0 then
      match r with
      | c1 :: _ => let b1 := bval c1 in
          if cont b1 then Some (((b0 - 192) * 64 + (b1 - 128))%N, 2) else bad
      | _ => bad end
    else if in_range 224 239 b0 then
      match r with
      | c1 :: c2 :: _ => let b1 := bval c1 in let b2 := bval c2 in
          let ok1 := if (b0 =? 224)%N then in_range 160 191 b1 else if (b0 =? 237)%N then in_range 128 159 b1 else cont b1 in
          if ok1 && cont b2 then Some (((b0 - 224) * 4096 + (b1 - 128) * 64 + (b2 - 128))%N, 3) else bad
      | _ => bad end
    else if in_range 240 244 b0 then
      match r with
      | c1 :: c2 :: c3 :: _ => let b1 := bval c1 in let b2 := bval c2 in let b3 := bval c3 in
          let ok1 := if (b0 =? 240)%N then in_range 144 191 b1 else if (b0 =? 244)%N then in_range 128 143 b1 else cont b1 in
          if ok1 && cont b2 && cont b3 then Some (((b0 - 240) * 262144 + (b1 - 128) * 4096 + (b2 - 128) * 64 + (b3 - 128))%N, 4) else bad
      | _ => bad end
    else bad
  end.

Lemma decode_width s r w : decode_rune s = Some (r, w) -> 1 <= w <= List.length s.
Proof.
  unfold decode_rune. destruct s as [|c0 s]; [discriminate|].
  repeat match goal with
  | |- context [if ?b then _ else _] => destruct b
  | |- context [match ?l with [] => _ | _ :: _ => _ end] => destruct l
  end; intros H; inversion H; subst; simpl; lia.
Qed.

(* ---------- tokens ---------- *)
(* toktype and the symbol table come from gen/Tables.v (generated from lex.go) *)
Record token := { typ : toktype; val : bytes }.

Record classes := { is_letter : N -> bool; is_digit : N -> bool }.

Section Lexer.
Variable cl : classes.

Definition ch (c : ascii) : N := bval c.
Definition is_alnum (r : N) : bool := (r =? 95)%N || is_letter cl r || is_digit cl r.       (* '_' *)
Definition is_wildcard (r : N) : bool := (r =? 42)%N || (r =? 63)%N.                          (* * ? *)
Definition is_escape (r : N) : bool := (r =? 92)%N.                                            (* \ *)
Definition is_space (r : N) : bool := (r =? 32)%N || (r =? 9)%N || (r =? 13)%N || (r =? 10)%N.

Fixpoint assoc_N (r : N) (l : list (N * toktype)) : option toktype :=
  match l with [] => None | (k, v) :: rest => if (r =? k)%N then Some v else assoc_N r rest end.
Definition symbol (r : N) : option toktype := assoc_N r symbols.

(* take w bytes from s onto acc (acc holds the token text reversed) *)
Fixpoint take_onto (w : nat) (s acc : bytes) : bytes * bytes :=
  match w, s with
  | S w', c :: r => take_onto w' r (c :: acc)
  | _, _ => (s, acc)
  end.

(* lexSpace: skip ' ', \t, \r, \n *)
Fixpoint skip_space (s : bytes) : bytes :=
  match s with
  | c :: r => if is_space (ch c) then skip_space r else s
  | [] => []
  end.

Inductive lexres := Tok (t : token) (rest : bytes) | LErr.

Definition upper_ascii (c : ascii) : ascii :=
  let n := bval c in if in_range 97 122 n then ascii_of_N (n - 32) else c.
Definition bytes_eqb (a b : bytes) : bool := if list_eq_dec ascii_dec a b then true else false.
Definition kw (s : string) : bytes := list_ascii_of_string s.

Definition word_type (w : bytes) : toktype :=
  let u := map upper_ascii w in
  if bytes_eqb u (kw "AND") then TAnd else if bytes_eqb u (kw "OR") then TOr
  else if bytes_eqb u (kw "NOT") then TNot else if bytes_eqb u (kw "TO") then TTO else TLiteral.

(* lexWord: fuel bounds the number of runes *)
Fixpoint lex_word (fuel : nat) (s acc : bytes) : lexres :=
  match fuel with
  | 0 => LErr
  | S f =>
    match decode_rune s with
    | None => Tok {| typ := word_type (rev acc); val := rev acc |} s
    | Some (r, w) =>
      if is_alnum r || is_wildcard r || (r =? 46)%N || (r =? 45)%N then
        let '(s', acc') := take_onto w s acc in lex_word f s' acc'
      else if is_escape r then
        let '(s1, acc1) := take_onto w s acc in
        match decode_rune s1 with
        | None => lex_word f s1 acc1
        | Some (_, w2) => let '(s2, acc2) := take_onto w2 s1 acc1 in lex_word f s2 acc2
        end
      else Tok {| typ := word_type (rev acc); val := rev acc |} s
    end
  end.

(* lexPhrase / lexRegexp after the opening delimiter has been consumed onto acc *)
Fixpoint lex_phrase (fuel : nat) (open : N) (s acc : bytes) : lexres :=
  match fuel with
  | 0 => LErr
  | S f =>
    match decode_rune s with
    | None => LErr
    | Some (r, w) =>
      let '(s', acc') := take_onto w s acc in
      if is_alnum r || is_wildcard r || is_escape r then lex_phrase f open s' acc'
      else if is_space r then lex_phrase f open s' acc'
      else if (r =? open)%N then Tok {| typ := TQuoted; val := rev acc' |} s'
      else lex_phrase f open s' acc'
    end
  end.

Fixpoint lex_regexp (fuel : nat) (open : N) (s acc : bytes) : lexres :=
  match fuel with
  | 0 => LErr
  | S f =>
    match decode_rune s with
    | None => LErr
    | Some (r, w) =>
      let '(s', acc') := take_onto w s acc in
      if is_alnum r || is_wildcard r then lex_regexp f open s' acc'
      else if is_escape r then
        match decode_rune s' with
        | None => lex_regexp f open s' acc'
        | Some (_, w2) => let '(s2, acc2) := take_onto w2 s' acc' in lex_regexp f open s2 acc2
        end
      else if is_space r then lex_regexp f open s' acc'
      else if (r =? open)%N then Tok {| typ := TRegexp; val := rev acc' |} s'
      else lex_regexp f open s' acc'
    end
  end.

Definition eof_tok := {| typ := TEOF; val := kw "EOF" |}.
Definition err_tok := {| typ := TErr; val := [] |}.

(* one Next() from the remaining input *)
Definition next_token (s0 : bytes) : token * bytes :=
  let s := skip_space s0 in
  let fuel := S (List.length s) in
  match decode_rune s with
  | None => (eof_tok, [])
  | Some (r, w) =>
    let fin (x : lexres) := match x with Tok t rest => (t, rest) | LErr => (err_tok, []) end in
    if is_alnum r || is_wildcard r || is_escape r then fin (lex_word fuel s [])
    else match symbol r with
    | Some ty => let '(s', acc) := take_onto w s [] in ({| typ := ty; val := rev acc |}, s')
    | None =>
      if (r =? 45)%N then
        let '(s', acc) := take_onto w s [] in
        match decode_rune s' with
        | Some (r2, _) => if is_digit cl r2 then fin (lex_word fuel s []) else ({| typ := TMinus; val := rev acc |}, s')
        | None => ({| typ := TMinus; val := rev acc |}, s')
        end
      else if (r =? 34)%N || (r =? 39)%N then
        let '(s', acc) := take_onto w s [] in fin (lex_phrase fuel r s' acc)
      else if (r =? 47)%N then
        let '(s', acc) := take_onto w s [] in fin (lex_regexp fuel r s' acc)
      else (err_tok, [])
    end
  end.

Fixpoint lex_all (fuel : nat) (s : bytes) : list token :=
  match fuel with
  | 0 => []
  | S f =>
    let '(t, rest) := next_token s in
    match typ t with
    | TEOF | TErr => [t]
    | _ => t :: lex_all f rest
    end
  end.

Definition lex (s : bytes) : list token := lex_all (S (List.length s)) s.

(* ---------- the Lexer object: Next and Peek ----------
   state = the remaining input and whether the token Next returned last was EOF (Peek's `currItem.Typ == TEOF` shortcut).
   errorf empties the input, which is what next_token's error case returns as the rest. Peek has a value receiver: it works
   on a copy and hands no state back. *)
Record lstate := { rest : bytes; last_eof : bool }.
Definition linit (s : bytes) : lstate := {| rest := s; last_eof := false |}.
Definition is_eof (t : token) : bool := match typ t with TEOF => true | _ => false end.
Definition lnext (st : lstate) : token * lstate :=
  let '(t, r) := next_token (rest st) in (t, {| rest := r; last_eof := is_eof t |}).
Definition lpeek (st : lstate) : token := if last_eof st then eof_tok else fst (next_token (rest st)).

End Lexer.

