(* C08, quoting clause, from the query TEXT to the rows: the bytes  f:"w"  (w any byte string without a double quote) go through the
   lexer, the parser, Validate, the inline renderer and the PostgreSQL scanner and grammar models and arrive as the comparison of
   column f with the string constant w. Composition of LexField.lex_field_quoted and QuoteE2E. *)
Require Import Parser ParserShape Render Api PgModel QuerySem SqlSem SqlFrag SqlFragP Shape Build Printer QuotePipeline SqlSucceeds QuoteE2E.
Require Lex LexField.
From Coq Require Import List Ascii String ZArith NArith Bool Lia.
Import ListNotations.
Open Scope string_scope.

Lemma sola_app a b : string_of_list_ascii (a ++ b) = string_of_list_ascii a ++ string_of_list_ascii b.
Proof. induction a as [|x a IH]; cbn; [reflexivity|rewrite IH; reflexivity]. Qed.
Lemma los_sola l : list_ascii_of_string (string_of_list_ascii l) = l. Proof. apply list_ascii_of_string_of_list_ascii. Qed.
Lemma contains_sola c : forall w, Forall (fun x => x <> c) w -> contains_char c (string_of_list_ascii w) = false.
Proof.
  induction w as [|x w IH]; intros H; cbn; [reflexivity|]. inversion H; subst.
  destruct (Ascii.eqb x c) eqn:E0; [apply Ascii.eqb_eq in E0; contradiction|]. cbn. apply IH. assumption.
Qed.

Definition quoted_text (f w : list ascii) : string := string_of_list_ascii (f ++ ":"%char :: """"%char :: w ++ [""""%char]).

Theorem to_postgres_on_quoted_value :
  forall (o : oracle) (o2 : oracle2) (cl : Lex.classes),
  Lex.is_letter cl 34%N = false /\ Lex.is_digit cl 34%N = false ->
  Lex.is_letter cl 58%N = false /\ Lex.is_digit cl 58%N = false ->
  (forall r, Lex.is_space r = true -> Lex.is_alnum cl r = false) ->
  forall (c0 : ascii) (f w : list ascii),
  forallb (LexField.wordc cl) (c0 :: f) = true -> Forall (fun c => c <> """"%char) w -> Lex.word_type (c0 :: f) = TLiteral ->
  let fs := string_of_list_ascii (c0 :: f) in let ws := string_of_list_ascii w in
  parse_literal o {| typ := TLiteral; val := fs |} = lit (VStr fs) ->
  name_ok fs = true -> col_ok o2 fs = true -> lit_ok o2 (sqs ws) = true ->
  exists s : string,
    Api.to_postgres o o2 cl "" (quoted_text (c0 :: f) w) = Ret (s, None) /\
    pg_read (str s) = Some (qast fs ws) /\
    forall r : row, ssem r [] (qast fs ws) = qsem r (qtree fs ws).
Proof.
  intros o o2 cl Hq Hc Hws c0 f w Hf Hw Ht fs ws Pl Nm Co Lo.
  assert (Hcw : contains_char """"%char ws = false) by (apply contains_sola; exact Hw).
  destruct (quoted_value_reaches_postgres o o2 {| typ := TLiteral; val := fs |} fs ws eq_refl Pl Hcw Nm Co Lo) as [Pt [s [R [Rd Sm]]]].
  exists s. split; [|split; assumption].
  unfold Api.to_postgres, Api.parse, Api.lex_tokens, quoted_text. rewrite los_sola.
  rewrite (LexField.lex_field_quoted cl Hq Hc Hws c0 f w Hf Hw Ht). cbn [map]. unfold tok_of. cbn [Lex.typ Lex.val].
  replace (string_of_list_ascii (""""%char :: w ++ [""""%char])) with (String """"%char (ws ++ String """"%char "")).
  2:{ cbn [string_of_list_ascii]. rewrite sola_app. reflexivity. }
  change (match parse_toks o "" [{| typ := TLiteral; val := fs |}; colon_tok; quoted ws; eof] with
          | PTree e => render o2 e | PErr => Ret ("", Some "parse error") | PPanic p => Panic p | POutOfFuel => Panic "out of fuel" end = Ret (s, None)).
  rewrite Pt. exact R.
Qed.

Theorem to_param_postgres_on_quoted_value :
  forall (o : oracle) (o2 : oracle2) (cl : Lex.classes),
  Lex.is_letter cl 34%N = false /\ Lex.is_digit cl 34%N = false ->
  Lex.is_letter cl 58%N = false /\ Lex.is_digit cl 58%N = false ->
  (forall r, Lex.is_space r = true -> Lex.is_alnum cl r = false) ->
  forall (c0 : ascii) (f w : list ascii),
  forallb (LexField.wordc cl) (c0 :: f) = true -> Forall (fun c => c <> """"%char) w -> Lex.word_type (c0 :: f) = TLiteral ->
  let fs := string_of_list_ascii (c0 :: f) in let ws := string_of_list_ascii w in
  parse_literal o {| typ := TLiteral; val := fs |} = lit (VStr fs) ->
  String.eqb ws "*" = false -> name_ok fs = true -> col_ok o2 fs = true -> valid_utf8 o2 "?" = true ->
  exists s : string,
    Api.to_param_postgres o o2 cl "" (quoted_text (c0 :: f) w) = Ret (s, [VStr ws], None) /\
    pg_read (number_placeholders (str s)) = Some (past fs) /\
    forall r : row, ssem r [RStr ws] (past fs) = qsem r (qtree fs ws).
Proof.
  intros o o2 cl Hq Hc Hws c0 f w Hf Hw Ht fs ws Pl Hs Nm Co Vq.
  assert (Hcw : contains_char """"%char ws = false) by (apply contains_sola; exact Hw).
  pose proof (quoted_value_tree o {| typ := TLiteral; val := fs |} fs ws eq_refl Pl Hcw) as Pt.
  destruct (quoted_value_travels_as_parameter o2 fs ws Hs Nm Co Vq) as [s [R [Rd Sm]]].
  exists s. split; [|split; assumption].
  unfold Api.to_param_postgres, Api.parse, Api.lex_tokens, quoted_text. rewrite los_sola.
  rewrite (LexField.lex_field_quoted cl Hq Hc Hws c0 f w Hf Hw Ht). cbn [map]. unfold tok_of. cbn [Lex.typ Lex.val].
  replace (string_of_list_ascii (""""%char :: w ++ [""""%char])) with (String """"%char (ws ++ String """"%char "")).
  2:{ cbn [string_of_list_ascii]. rewrite sola_app. reflexivity. }
  change (match parse_toks o "" [{| typ := TLiteral; val := fs |}; colon_tok; quoted ws; eof] with
          | PTree e => render_param o2 e | PErr => Ret ("", [], Some "parse error") | PPanic p => Panic p | POutOfFuel => Panic "out of fuel" end = Ret (s, [VStr ws], None)).
  rewrite Pt. exact R.
Qed.

(* ---- escaping clause from the TEXT (ASCII w without backslash, star and question mark) ---- *)
Require LexEscape EscapePipeline.

Definition escaped_text (cl : Lex.classes) (f w : list ascii) : string := string_of_list_ascii (f ++ ":"%char :: LexEscape.esc_b cl w).

Theorem to_postgres_on_escaped_value :
  forall (o : oracle) (o2 : oracle2) (cl : Lex.classes),
  Lex.is_letter cl 34%N = false /\ Lex.is_digit cl 34%N = false ->
  Lex.is_letter cl 58%N = false /\ Lex.is_digit cl 58%N = false ->
  Lex.is_letter cl 92%N = false /\ Lex.is_digit cl 92%N = false ->
  (forall r, Lex.is_space r = true -> Lex.is_alnum cl r = false) ->
  forall (c0 : ascii) (f : list ascii) (d0 : ascii) (w : list ascii),
  forallb (LexField.wordc cl) (c0 :: f) = true -> Lex.word_type (c0 :: f) = TLiteral ->
  forallb LexEscape.asciib (d0 :: w) = true -> Lex.word_type (LexEscape.esc_b cl (d0 :: w)) = TLiteral ->
  forallb (fun c => negb (Ascii.eqb c "\"%char)) (d0 :: w) = true ->
  let fs := string_of_list_ascii (c0 :: f) in let ws := string_of_list_ascii (d0 :: w) in
  let es := string_of_list_ascii (LexEscape.esc_b cl (d0 :: w)) in
  contains_char "*"%char ws = false -> contains_char "?"%char ws = false ->
  atoi es = None -> match parse_float o es with Some x => is_nan_or_inf o x = true | None => True end ->
  parse_literal o {| typ := TLiteral; val := fs |} = lit (VStr fs) ->
  name_ok fs = true -> col_ok o2 fs = true -> lit_ok o2 (sqs ws) = true ->
  exists s : string,
    Api.to_postgres o o2 cl "" (escaped_text cl (c0 :: f) (d0 :: w)) = Ret (s, None) /\
    pg_read (str s) = Some (qast fs ws) /\
    forall r : row, ssem r [] (qast fs ws) = qsem r (qtree fs ws).
Proof.
  intros o o2 cl Hq Hc Hb Hws c0 f d0 w Hf Ht Ha He Hnb fs ws es Hs Hqm Hat Hfl Pl Nm Co Lo.
  assert (Rm : remove_char "\"%char es = ws) by (apply (EscapePipeline.esc_remove cl); exact Hnb).
  assert (Cs : contains_char "*"%char es = false) by (unfold es; rewrite (EscapePipeline.esc_contains cl "*"%char eq_refl); exact Hs).
  assert (Cq : contains_char "?"%char es = false) by (unfold es; rewrite (EscapePipeline.esc_contains cl "?"%char eq_refl); exact Hqm).
  destruct (escaped_value_reaches_postgres o o2 {| typ := TLiteral; val := fs |} fs es ws eq_refl Pl Hat Hfl Cs Cq Rm Nm Co Lo) as [Pt [s [R [Rd Sm]]]].
  exists s. split; [|split; assumption].
  unfold Api.to_postgres, Api.parse, Api.lex_tokens, escaped_text. rewrite los_sola.
  rewrite (LexEscape.lex_field_escaped cl Hq Hc Hb Hws c0 f d0 w Hf Ht Ha He). cbn [map]. unfold tok_of. cbn [Lex.typ Lex.val].
  change (match parse_toks o "" [{| typ := TLiteral; val := fs |}; colon_tok; EscapePipeline.word_tok es; eof] with
          | PTree e => render o2 e | PErr => Ret ("", Some "parse error") | PPanic p => Panic p | POutOfFuel => Panic "out of fuel" end = Ret (s, None)).
  rewrite Pt. exact R.
Qed.
