package main

import "fmt"

// ---------------------------------------------------------------------------------------------------
// pairs: every construct of the query language directly under every other construct, in every operand position - written as
// text templates, so that also the combinations the grammar does not list (a group where a single value is expected, a prefix
// operator on a range bound, a quoted phrase under a suffix operator) are present. Valid or not is for the two
// implementations to agree on.
// ---------------------------------------------------------------------------------------------------

var pairChildren = []string{
	"x", "5", "-3", "2.5", `"q r"`, `"w?"`, `"/r/"`, "w*", "?", "*", "/re/", `x\ y`, "true", "null",
	"k:v", "k:5", `k:"q r"`, "k:w*", "k:/re/", "k=v", "k:>5", "k:>=v", "k:<5", "k:<=5", "k:[1 TO 5]", "k:{a TO *}", "k:[* TO 5}", "k:(p OR q)", "k:(p OR 5 OR \"s t\")", "k:(p)", "k:(p AND q)",
	"p AND q", "p OR q", "p q", "NOT p", "+p", "-p", "p^2", "p~2", "p~", "p^", "(p)", "(p OR q)", "(k:v)", "(NOT p)", "p OR q AND r", "NOT p AND q", "+p -q",
}

var pairParents = []string{
	"%s", "(%s)", "((%s))", "%s AND z", "z AND %s", "%s OR z", "z OR %s", "%s z", "z %s", "NOT %s", "NOT (%s)", "+%s", "+(%s)", "-%s", "-(%s)", "%s^2", "(%s)^2", "%s~2", "(%s)~", "%s^", "%s~",
	"f:%s", "f:(%s)", "f=%s", "f=(%s)", "f:>%s", "f:>(%s)", "f:>=%s", "f:>=(%s)", "f:<%s", "f:<(%s)", "f:<=(%s)", "f:[%s TO 9]", "f:[1 TO %s]", "f:{%s TO *}", "f:[(%s) TO 9]", "f:(%s OR y)", "f:(y OR %s)",
	"f:(y OR (%s))", "%s:v", "(%s):v", "%s:[1 TO 2]", "a:b AND NOT %s", "(a:b OR %s) AND c", "f:(%s) g:(%s)", "%s %s", "%s OR %s", "NOT %s AND NOT %s",
}

func genPairs() {
	for _, p := range pairParents {
		for _, c := range pairChildren {
			q := fmt.Sprintf(p, c)
			if n := countVerb(p); n == 2 {
				q = fmt.Sprintf(p, c, c)
			}
			emitQ(q, "", "src=pairs")
			emitQ(q, "d", "src=pairs")
		}
	}
	genRelated()
}

// every pair of leaf constructs on ONE field, with values in every order relation, under every connective: two operands that are
// each unremarkable and related (a lower and an upper limit, the same value twice, a value and its neighbour)
func genRelated() {
	ops := []string{":", "=", ":>", ":>=", ":<", ":<="}
	nums := [][2]string{{"1", "5"}, {"5", "1"}, {"5", "5"}, {"1.5", "99"}, {"-3", "0"}, {"10", "20"}}
	strs := [][2]string{{"b", "b"}, {"b", "B"}, {"abc", "abd"}, {"x", "\"x\""}, {"\"q r\"", "\"q  r\""}, {"5", "\"5\""}, {"w*", "w?"}, {"w*", "\"w*\""}}
	conns := []string{" AND ", " OR ", " ", " AND NOT ", " OR -"}
	emit := func(q string) {
		emitQ(q, "", "src=related")
		emitQ("("+q+") OR x:y", "d", "src=related")
	}
	for _, o1 := range ops {
		for _, o2 := range ops {
			for _, c := range conns {
				for _, v := range nums {
					emit("a" + o1 + v[0] + c + "a" + o2 + v[1])
				}
				if (o1 == ":" || o1 == "=") && (o2 == ":" || o2 == "=") {
					for _, v := range strs {
						emit("a" + o1 + v[0] + c + "a" + o2 + v[1])
						emit("a" + o1 + v[0] + c + "b" + o2 + v[1])
					}
				}
			}
		}
	}
	// ranges next to comparisons and to each other on one field
	for _, r := range []string{"[1 TO 5]", "{1 TO 5}", "[5 TO 1]", "[5 TO 5]", "[* TO 5]", "[1 TO *]", "[a TO c]", "[c TO a]"} {
		for _, c := range conns {
			emit("a:" + r + c + "a:>=1")
			emit("a:<=5" + c + "a:" + r)
			emit("a:" + r + c + "a:" + r)
		}
	}
	// value lists with repeated and related values
	for _, l := range []string{"(x OR x)", "(x OR y OR x)", "(x OR X)", "(1 OR 1)", "(1 OR 2 OR 1)", "(\"5\" OR 5)", "(x OR \"x\")", "(open OR closed OR open)"} {
		emit("a:" + l)
		emit("a:" + l + " AND a:x")
	}
}

func countVerb(p string) int {
	n := 0
	for i := 0; i+1 < len(p); i++ {
		if p[i] == '%' && p[i+1] == 's' {
			n++
		}
	}
	return n
}
