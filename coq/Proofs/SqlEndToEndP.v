(* C04 on the model, end to end: whenever the parameterized renderer returns (text, parameters) for a tree of the fragment, the
   parameters are the ones of Spec/SqlFragP.trp, PostgreSQL reads from the text - its placeholders numbered $1, $2, ... - exactly the
   expression of trp, and that expression with the parameters bound is true on exactly the rows of the query. *)
Require Import Parser ParserShape Render PgModel QuerySem SqlSem SqlFrag SqlFragP.
Require Import SqlParse SqlParseP SqlSemProof SqlSemProofP SqlLex SqlEndToEnd SqlLexP SqlNumber SqlTextP.
From Coq Require Import List Ascii String ZArith Bool Lia Arith.
Import ListNotations.

Lemma param_toks_good : forall n k, existsb is_bad (param_toks k n) = false.
Proof.
  induction n as [|n IH]; intros k; [reflexivity|]. destruct n as [|n']; [reflexivity|].
  change (param_toks k (S (S n'))) with (TParam (pnum k) :: TComma :: param_toks (S k) (S n')). cbn [existsb is_bad orb]. apply IH.
Qed.

Theorem trp_tokens_good_sz : forall n e, esize e <= n -> forall k ts a ps, trp e k = Some (ts, a, ps) -> existsb is_bad ts = false.
Proof.
  induction n as [|n IH]; intros e Hn k ts a ps T; [destruct e; cbn in Hn; lia|].
  destruct e as [l op rt b fz]. cbn [esize] in Hn. cbn [trp] in T.
  destruct op; try discriminate.
  - destruct l as [ |?|?|?|?|?|x|?|? ? ?]; try discriminate. destruct rt as [ |?|?|?|?|?|y|?|? ? ?]; try discriminate.
    destruct (trp x k) as [[[tx ax] px]|] eqn:Tx; [|discriminate]. destruct (trp y (k + List.length px)) as [[[ty ay] py]|] eqn:Ty; [|discriminate].
    injection T as <- <- <-. cbn [vsize] in Hn. cbn [existsb is_bad orb]. rewrite bad_app. cbn [existsb is_bad orb]. rewrite bad_app.
    rewrite (IH x ltac:(lia) k tx ax px Tx), (IH y ltac:(lia) _ ty ay py Ty). reflexivity.
  - destruct l as [ |?|?|?|?|?|x|?|? ? ?]; try discriminate. destruct rt as [ |?|?|?|?|?|y|?|? ? ?]; try discriminate.
    destruct (trp x k) as [[[tx ax] px]|] eqn:Tx; [|discriminate]. destruct (trp y (k + List.length px)) as [[[ty ay] py]|] eqn:Ty; [|discriminate].
    injection T as <- <- <-. cbn [vsize] in Hn. cbn [existsb is_bad orb]. rewrite bad_app. cbn [existsb is_bad orb]. rewrite bad_app.
    rewrite (IH x ltac:(lia) k tx ax px Tx), (IH y ltac:(lia) _ ty ay py Ty). reflexivity.
  - destruct (field_of l); [|discriminate]. destruct rt as [ |?|?|?|?|?|lf|?|? ? ?]; try discriminate. cbn [cmp_text] in T.
    destruct (const_param lf); [|discriminate]. injection T as <- <- <-. reflexivity.
  - destruct (field_of l); [|discriminate]. destruct rt as [ |?|?|?|?|?|p|?|? ? ?]; try discriminate. destruct p as [l2 op2 r2 b2 f2].
    destruct l2; try discriminate; destruct op2; try discriminate; destruct r2; try discriminate.
    match goal with T : context [is_regex_text ?p] |- _ => destruct (is_regex_text p); [discriminate|] end. injection T as <- <- <-. reflexivity.
  - destruct l as [ |?|?|?|?|?|x|?|? ? ?]; try discriminate. destruct rt; try discriminate.
    destruct (trp x k) as [[[tx ax] px]|] eqn:Tx; [|discriminate]. injection T as <- <- <-. cbn [vsize] in Hn.
    cbn [existsb is_bad orb]. rewrite bad_app. rewrite (IH x ltac:(lia) k tx ax px Tx). reflexivity.
  - destruct (field_of l); [|discriminate]. destruct rt as [ |?|?|?|?|?|?|?|lo hi incl]; try discriminate. cbv zeta in T.
    destruct (int_bound lo); destruct (int_bound hi); destruct (is_star lo); destruct (is_star hi); try discriminate; injection T as <- <- <-; reflexivity.
  - destruct l as [ |?|?|?|?|?|x|?|? ? ?]; try discriminate. destruct rt; try discriminate. cbn [vsize] in Hn. apply (IH x ltac:(lia) k ts a ps T).
  - destruct l as [ |?|?|?|?|?|x|?|? ? ?]; try discriminate. destruct rt; try discriminate.
    destruct (trp x k) as [[[tx ax] px]|] eqn:Tx; [|discriminate]. injection T as <- <- <-. cbn [vsize] in Hn.
    cbn [existsb is_bad orb]. rewrite bad_app. rewrite (IH x ltac:(lia) k tx ax px Tx). reflexivity.
  - destruct (field_of l); [|discriminate]. destruct rt as [ |?|?|?|?|?|lf|?|? ? ?]; try discriminate. cbn [cmp_text] in T.
    destruct (const_param lf); [|discriminate]. injection T as <- <- <-. reflexivity.
  - destruct (field_of l); [|discriminate]. destruct rt as [ |?|?|?|?|?|lf|?|? ? ?]; try discriminate. cbn [cmp_text] in T.
    destruct (const_param lf); [|discriminate]. injection T as <- <- <-. reflexivity.
  - destruct (field_of l); [|discriminate]. destruct rt as [ |?|?|?|?|?|lf|?|? ? ?]; try discriminate. cbn [cmp_text] in T.
    destruct (const_param lf); [|discriminate]. injection T as <- <- <-. reflexivity.
  - destruct (field_of l); [|discriminate]. destruct rt as [ |?|?|?|?|?|lf|?|? ? ?]; try discriminate. cbn [cmp_text] in T.
    destruct (const_param lf); [|discriminate]. injection T as <- <- <-. reflexivity.
  - destruct (field_of l); [|discriminate]. destruct rt as [ |?|?|?|?|?|p|?|? ? ?]; try discriminate. destruct p as [l2 op2 r2 b2 f2].
    destruct l2 as [ |?|?|?|?|?|?|lits|? ? ?]; try discriminate. destruct lits as [|x lits]; try discriminate.
    destruct op2; try discriminate; destruct r2; try discriminate.
    destruct (consts_param (x :: lits)) as [vs|]; [|discriminate]. injection T as <- <- <-.
    cbn [existsb is_bad orb]. rewrite bad_app, param_toks_good. reflexivity.
Qed.

Section E2E.
Variable o2 : oracle2.

Theorem render_param_reads e ts a ps s ps' : trp e 1 = Some (ts, a, ps) -> names_ok e = true ->
  (Z.of_nat (1 + pcount e) < 1000000000)%Z ->
  render_param o2 e = Ret (s, ps', None) ->
  ps' = ps /\ pg_read (number_placeholders (str s)) = Some a.
Proof.
  intros T Nm Hk R. destruct (render_param_text o2 e ts a ps s ps' T R) as [Es Ep]. split; [exact Ep|].
  unfold pg_read, number_placeholders. rewrite Es.
  pose proof (number_ptxt_sz (esize e) e (le_n _) 1 ts a ps T Nm []) as N. rewrite app_nil_r in N. cbn [number_q] in N. rewrite app_nil_r in N. rewrite N.
  destruct (ntxt_lexes_sz (esize e) e (le_n _) 1 ts a ps T Nm Hk) as [H L].
  assert (PL : pg_lex (ntxt e 1) = ts).
  { unfold pg_lex. replace (S (List.length (ntxt e 1))) with (List.length ts + S (List.length (ntxt e 1) - List.length ts)) by lia.
    rewrite <- (app_nil_r (ntxt e 1)) at 2. rewrite (H [] _ (or_introl eq_refl)). rewrite lex_all_nil, app_nil_r. reflexivity. }
  rewrite PL. change (fun t : tok => match t with TBad _ => true | _ => false end) with is_bad.
  rewrite (trp_tokens_good_sz (esize e) e (le_n _) 1 ts a ps T). apply (trp_parses e 1 ts a ps T).
Qed.
End E2E.
