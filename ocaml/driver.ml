(* Correspondence check and property search.
   Reads observation lines produced by `observe run` (the implementation built from /repo's working tree), runs the
   extracted Coq model (Model) on the same inputs, compares the projected observables component by component, and
   evaluates the per-property checks (Checks) on the IMPLEMENTATION's observations. Writes a JSON report.

     driver <oracle-binary> <report.json>  < observations                                                   *)
open Model
open Common
open Checks


(* ---------- Q lines ---------- *)
let handle_q (f : string array) (o : string array) =
  let q = unhexs f.(1) and df = unhexs f.(2) and tag = f.(3) in
  let input = [("query", q); ("query_hex", f.(1)); ("default_field", df); ("tag", tag)] in
  bump "lines.Q";
  if tag_get tag "giant" = Some "1" then check_q { q; df; tag; o; line = !current_case; mtree = None } input else begin
  (* --- correspondence --- *)
  let toks = lex_tokens cls (chars_of_string q) in
  bump "corr.lex";
  if show_toks toks <> o.(0) then record_mismatch "lex" (input @ [("go", o.(0)); ("model", show_toks toks)]);
  let pr_ = parse_toks orc (chars_of_string df) toks in
  let pm = match pr_ with
    | PTree e -> show_expr e ^ "|0" | PErr -> "nil|1" | PPanic s -> "PANIC " ^ string_of_chars s | POutOfFuel -> "OUTOFFUEL" in
  bump "corr.parse";
  if pm <> o.(1) then record_mismatch "parse" (input @ [("go", o.(1)); ("model", pm)]);
  let big = tag_get tag "src" = Some "big" in
  (match pr_ with
   | PTree e when pm = o.(1) && big -> bump "accepted"; bump "big.accepted"   (* adversarial sizes: lexer and parser only *)
   | PTree e when pm = o.(1) ->
       bump "accepted"; note_distinct "trees" (show_expr e); sample "Q" q;
       bump "corr.validate"; if o.(2) <> "ok" then record_mismatch "validate" (input @ [("go", o.(2)); ("model", "ok")]);
       compare_renders "" input e o 3;
       (* JSON round trip through the model's decoder, on the implementation's own bytes *)
       if o.(18) <> "-" then begin
         (* the syntax tree of the encoder's bytes is the one the specification predicts from the tree (Spec/Cst.v) *)
         bump "corr.EncoderCst";
         if parse_cst o.(18) <> cst_e orc2 e then record_mismatch "EncoderCst" (input @ [("json", (match xtext o.(7) with Some t -> t | None -> ""))]);
         let d = decode orc (parse_cst o.(18)) in
         let dm = match d with DOk x -> show_expr x | DErr -> "ERR" | DPanic _ -> "PANIC" in
         bump "corr.Decode";
         if dm <> o.(10) then record_mismatch "Decode" (input @ [("json", (match xtext o.(7) with Some t -> t | None -> "")); ("go", o.(10)); ("model", dm)]);
         (match d with
          | DOk x when dm = o.(10) ->
              let vm = if validate x then "ok" else "invalid" in
              bump "corr.validate'"; if vm <> o.(11) then record_mismatch "validate'" (input @ [("go", o.(11)); ("model", vm)]);
              compare_renders "decoded." input x o 13
          | _ -> ())
       end
   | _ -> ());
  if not big then begin
  bump "corr.ToPostgres";
  let tp = m_sres (to_postgres orc orc2 cls (chars_of_string df) (chars_of_string q)) in
  if tp <> o.(8) && o.(8) <> "SKIPPED" then record_mismatch "ToPostgres" (input @ [("go", o.(8)); ("model", tp)]);
  bump "corr.ToParameterizedPostgres";
  let tpp = m_pres (to_param_postgres orc orc2 cls (chars_of_string df) (chars_of_string q)) in
  if tpp <> o.(9) && o.(9) <> "SKIPPED" then record_mismatch "ToParameterizedPostgres" (input @ [("go", o.(9)); ("model", tpp)])
  end;
  (* --- property checks on the implementation's observation --- *)
  check_q { q; df; tag; o; line = !current_case; mtree = (match pr_ with PTree e -> Some e | _ -> None) } input
  end

(* ---------- L lines ---------- *)
let handle_l (f : string array) (o : string array) =
  let inp = unhexs f.(1) and script = f.(2) in
  let input = [("input", inp); ("input_hex", f.(1)); ("script", script)] in
  bump "lines.L"; sample "L" (f.(1) ^ " " ^ script);
  note_distinct "lex_inputs" f.(1);
  (* the model: Lex.lstate / lnext / lpeek (the functions the C16 theorems are about) *)
  let st = ref (linit (chars_of_string inp)) in
  let res = Buffer.create 64 in
  String.iter (fun c ->
    let t = if c = 'P' then lpeek cls !st else begin let (t, st') = lnext cls !st in st := st'; t end in
    if Buffer.length res > 0 then Buffer.add_char res ' ';
    Buffer.add_string res (Printf.sprintf "%c%d:%s" c (typnum t.typ0) (if t.typ0 = TErr then "" else hex t.val1))) script;
  bump "corr.lexscript";
  if Buffer.contents res <> o.(0) then record_mismatch "lexscript" (input @ [("go", o.(0)); ("model", Buffer.contents res)]);
  check_l inp script o.(0) input

(* ---------- J lines ---------- *)
let handle_j (f : string array) (o : string array) =
  let doc = unhexs f.(1) in
  let input = [("json", doc); ("json_hex", f.(1)); ("tag", f.(2))] in
  bump "lines.J";
  if o.(0) <> "INVALID" then begin
    sample "J" doc; note_distinct "json_docs" f.(1);
    let d = decode orc (parse_cst o.(0)) in
    let dm = match d with DOk x -> show_expr x | DErr -> "ERR" | DPanic _ -> "PANIC" in
    bump "corr.DecodeUntrusted";
    if dm <> o.(1) then record_mismatch "DecodeUntrusted" (input @ [("go", o.(1)); ("model", dm)]);
    (match d with
     | DOk x when dm = o.(1) ->
         bump "json.decoded";
         let vm = if validate x then "ok" else "invalid" in
         bump "corr.ValidateDecoded"; if vm <> o.(2) then record_mismatch "ValidateDecoded" (input @ [("go", o.(2)); ("model", vm)]);
         if vm = "ok" && o.(2) = "ok" then begin bump "json.validated"; compare_renders "untrusted." input x o 3 end
     | _ -> ())
  end else bump "json.notjson";
  check_j doc o input

(* ---------- D lines ---------- *)
let handle_d (f : string array) (o : string array) =
  let q = unhexs f.(1) and spec = f.(2) in
  let input = [("query", q); ("mapspec", spec)] in
  bump "lines.D";
  if o.(0) <> "NOPARSE" then check_d q spec o input

let () =
  let total = ref 0 in
  (try
    while true do
      let line = input_line stdin in
      incr total;
      let parts = String.split_on_char '\t' line in
      let rec split acc = function "|" :: r -> (List.rev acc, r) | x :: r -> split (x :: acc) r | [] -> (List.rev acc, []) in
      let (f, o) = split [] parts in
      current_case := String.concat "\t" f; extra_case := "";
      let f = Array.of_list f and o = Array.of_list o in
      (try
        match f.(0) with
        | "Q" -> handle_q f o
        | "L" -> handle_l f o
        | "J" -> handle_j f o
        | "D" -> handle_d f o
        | _ -> ()
      with
      | Unmodelled w -> record_mismatch "unmodelled-value" [("line", String.sub line 0 (min 300 (String.length line))); ("what", w)]
      | Failure w | Invalid_argument w -> record_mismatch "driver-error" [("line", String.sub line 0 (min 300 (String.length line))); ("what", w)]
      | Not_found -> record_mismatch "driver-error" [("line", String.sub line 0 (min 300 (String.length line))); ("what", "Not_found")]
      | Stack_overflow -> record_mismatch "driver-stack-overflow" [("line", String.sub line 0 (min 120 (String.length line)))])
    done
  with End_of_file -> ());
  finish_groups ();
  let oc = open_out Sys.argv.(2) in
  let kv l = "{" ^ String.concat "," (List.map (fun (k, v) -> jstr k ^ ":" ^ jstr v) l) ^ "}" in
  Printf.fprintf oc "{\"lines\":%d,\"oracle_queries\":%d,\n\"counters\":{%s},\n" !total !queries
    (String.concat "," (List.sort compare (Hashtbl.fold (fun k v acc -> (jstr k ^ ":" ^ string_of_int v) :: acc) counters [])));
  Printf.fprintf oc "\"distinct\":{%s},\n" (String.concat "," (Hashtbl.fold (fun k h acc -> (jstr k ^ ":" ^ string_of_int (Hashtbl.length h)) :: acc) distinct []));
  Printf.fprintf oc "\"samples\":{%s},\n" (String.concat "," (Hashtbl.fold (fun k l acc -> (jstr k ^ ":[" ^ String.concat "," (List.map jstr l) ^ "]") :: acc) samples []));
  Printf.fprintf oc "\"mismatches\":[%s],\n" (String.concat ",\n" (List.rev_map (fun (c, l) -> kv (("component", c) :: l)) !mismatches));
  Printf.fprintf oc "\"failures\":[%s]}\n" (String.concat ",\n" (List.rev_map (fun (p, l) -> kv (("property", p) :: l)) !failures));
  close_out oc
