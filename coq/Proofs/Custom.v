(* Scratch: C15 — Render over an arbitrary table of render functions; a missing entry anywhere makes it fail *)
Require Import Parser ParserShape Render.
Require Export Driver.
From Coq Require Import List Ascii String ZArith Bool Lia.
Import ListNotations.
Open Scope string_scope.

Section D.
Variable o2 : oracle2.
Variable fns : operator -> option (string -> string -> out sres).
Notation render_with := (Driver.render_with o2 fns).
Notation serialize_with := (Driver.serialize_with o2 fns).
Notation missing := (Driver.missing fns).
Notation vmissing := (Driver.vmissing fns).
Notation ser_list_with := (Driver.ser_list_with o2 fns).

Definition succeeds (x : out sres) : Prop := exists s, x = Ret (s, None).

Lemma bind_succeeds {A} (x : out A) (k : A -> out sres) :
  succeeds (bind x k) -> exists a, x = Ret a /\ succeeds (k a).
Proof. destruct x; cbn; intros [s H]; [eexists; split; [reflexivity|exists s; exact H] | discriminate]. Qed.

Lemma missing_fails_sized : forall n,
  (forall e, esize e <= n -> missing e = true -> ~ succeeds (render_with e)) /\
  (forall v, vsize v <= n -> vmissing v = true -> ~ succeeds (serialize_with v)).
Proof.
  induction n as [|n [IHe IHv]].
  { split.
    - intros e Hs. destruct e; cbn in Hs; lia.
    - intros v Hs Hm. destruct v; cbn in Hm; try discriminate.
      + destruct e; cbn in Hs; lia.
      + cbn in Hs. lia.
      + cbn in Hs. lia. }
  assert (HE : forall e, esize e <= S n -> missing e = true -> ~ succeeds (render_with e)).
  { intros e Hs Hm Hsucc. destruct e as [l op r b z]. cbn in Hs. cbn [missing] in Hm. cbn [render_with] in Hsucc.
    apply bind_succeeds in Hsucc. destruct Hsucc as ([ls le] & El & Hsucc).
    destruct le as [er|]; [destruct Hsucc as [s Hs']; discriminate|].
    apply bind_succeeds in Hsucc. destruct Hsucc as ([rs' re] & Er & Hsucc).
    destruct re as [er|]; [destruct Hsucc as [s Hs']; discriminate|].
    apply orb_true_iff in Hm. destruct Hm as [Hm|Hm]; [apply orb_true_iff in Hm; destruct Hm as [Hm|Hm]|].
    + destruct (fns op); [discriminate|]. destruct Hsucc as [s Hs']; discriminate.
    + apply (IHv l); [lia | exact Hm | exists ls; exact El].
    + apply (IHv r); [lia | exact Hm | exists rs'; exact Er]. }
  split; [exact HE|].
  (* values *)
  { intros v Hs Hm Hsucc. destruct v; cbn in Hm; try discriminate.
    + (* VExp *) cbn in Hs. cbn [serialize_with] in Hsucc. apply (HE e); [lia | exact Hm | exact Hsucc].
    + (* VList *)
      rewrite serialize_with_list in Hsucc. cbn in Hs.
      revert Hsucc. generalize (@nil string).
      induction l as [|x xs IHl]; intros acc Hsucc; [discriminate|].
      apply orb_true_iff in Hm. cbn in Hs. cbn [ser_list_with] in Hsucc.
      apply bind_succeeds in Hsucc. destruct Hsucc as ([s' se] & Ex & Hsucc).
      destruct se as [er|]; [destruct Hsucc as [s Hs']; discriminate|].
      destruct Hm as [Hm|Hm].
      * apply (IHe x); [lia | exact Hm | exists s'; exact Ex].
      * apply (IHl ltac:(lia) Hm (s' :: acc)). exact Hsucc.
    + (* VBound *)
      cbn [serialize_with] in Hsucc. cbn in Hs.
      apply bind_succeeds in Hsucc. destruct Hsucc as ([sa ea] & Ea & Hsucc).
      destruct ea as [er|]; [destruct Hsucc as [s Hs']; discriminate|].
      apply bind_succeeds in Hsucc. destruct Hsucc as ([sb eb] & Eb & Hsucc).
      destruct eb as [er|]; [destruct Hsucc as [s Hs']; discriminate|].
      apply orb_true_iff in Hm. destruct Hm as [Hm|Hm].
      * apply (IHv v1); [lia | exact Hm | exists sa; exact Ea].
      * apply (IHv v2); [lia | exact Hm | exists sb; exact Eb]. }
Qed.

(* C15: if any node's operator has no registered function, Render does not succeed *)
Theorem missing_fails : forall e, missing e = true -> forall s, render_with e <> Ret (s, None).
Proof.
  intros e Hm s H. destruct (missing_fails_sized (esize e)) as [He _].
  apply (He e (le_n _) Hm). exists s. exact H.
Qed.

End D.

(* the postgres table has no entry for Fuzzy and Boost: every tree containing one of them fails to render *)
