(* Scratch prototype: model of the fragment of PostgreSQL 15's scanner (scan.l) and expression grammar (gram.y)
   that go-lucene's output can reach, to be validated against pg_query. *)
From Coq Require Import List Ascii String NArith Bool Arith Lia.
Import ListNotations.
Open Scope string_scope.
Open Scope nat_scope.

Definition bytes := list ascii.
Definition n (c : ascii) : nat := nat_of_ascii c.
Definition is_c (c : ascii) (k : nat) : bool := Nat.eqb (n c) k.

Inductive kw := KAnd | KOr | KNot | KBetween | KIn | KSimilar | KTo | KOtherKw.

Inductive tok :=
| TIdent (s : bytes)              (* column reference name, after case folding / truncation *)
| TStr (s : bytes)                (* string constant, decoded *)
| TNum (s : bytes)                (* numeric constant, text *)
| TParam (k : bytes)              (* $k *)
| TOp (s : bytes)
| TKw (k : kw)
| TLP | TRP | TComma
| TBad (why : string).            (* comment, statement separator, other syntax: never expected *)

Definition is_space (c : ascii) : bool := is_c c 32 || is_c c 9 || is_c c 10 || is_c c 13 || is_c c 12.
Definition is_digit (c : ascii) : bool := (48 <=? n c) && (n c <=? 57).
Definition is_ident_start (c : ascii) : bool :=
  ((65 <=? n c) && (n c <=? 90)) || ((97 <=? n c) && (n c <=? 122)) || is_c c 95 || (128 <=? n c).
Definition is_ident_cont (c : ascii) : bool := is_ident_start c || is_digit c || is_c c 36.
Definition is_op_char (c : ascii) : bool :=
  existsb (is_c c) [126; 33; 64; 35; 94; 38; 124; 96; 63; 43; 45; 42; 47; 37; 60; 62; 61].  (* ~!@#^&|`?+-*/%<>= *)
Definition lower (c : ascii) : ascii := if (65 <=? n c) && (n c <=? 90) then ascii_of_nat (n c + 32) else c.

Definition str (s : string) : bytes := list_ascii_of_string s.
Definition beq (a b : bytes) : bool := if list_eq_dec ascii_dec a b then true else false.

(* truncate an identifier to at most 63 bytes without cutting a UTF-8 sequence (pg_mbcliplen) *)
Definition is_cont_byte (c : ascii) : bool := (128 <=? n c) && (n c <=? 191).
Fixpoint strip_partial (r : bytes) : bytes :=      (* r reversed: remove the cut character's bytes *)
  match r with
  | x :: r' => if is_cont_byte x then strip_partial r' else r'
  | [] => []
  end.
Definition truncate_ident (s : bytes) : bytes :=
  if List.length s <=? 63 then s
  else let p := firstn 63 s in
       match nth_error s 63 with
       | Some c => if is_cont_byte c then rev (strip_partial (rev p)) else p
       | None => p
       end.

Fixpoint skip_ws (s : bytes) : bytes := match s with c :: r => if is_space c then skip_ws r else s | [] => [] end.
Fixpoint has_newline (s : bytes) : bool := match s with c :: r => if is_space c then (is_c c 10 || is_c c 13 || has_newline r) else false | [] => false end.

(* body of a quoted thing: up to the closing quote q, doubled q is one q *)
Fixpoint quoted_body (fuel : nat) (q : ascii) (s : bytes) (acc : bytes) : option (bytes * bytes) :=
  match fuel with
  | 0 => None
  | S f =>
    match s with
    | [] => None
    | c :: r =>
      if Ascii.eqb c q then
        match r with
        | c2 :: r2 => if Ascii.eqb c2 q then quoted_body f q r2 (c :: acc) else Some (rev acc, r)
        | [] => Some (rev acc, [])
        end
      else quoted_body f q r (c :: acc)
    end
  end.

(* string constant with continuation across newline-containing whitespace *)
Fixpoint string_const (fuel : nat) (s : bytes) (acc : bytes) : option (bytes * bytes) :=   (* s starts after the opening quote *)
  match fuel with
  | 0 => None
  | S f =>
    match quoted_body (S (List.length s)) "'"%char s [] with
    | None => None
    | Some (body, rest) =>
      let acc' := (acc ++ body)%list in
      if has_newline rest then
        match skip_ws rest with
        | c :: r => if Ascii.eqb c "'"%char then string_const f r acc' else Some (acc', rest)
        | [] => Some (acc', rest)
        end
      else Some (acc', rest)
    end
  end.

Fixpoint span (p : ascii -> bool) (s : bytes) (acc : bytes) : bytes * bytes :=
  match s with c :: r => if p c then span p r (c :: acc) else (rev acc, s) | [] => (rev acc, []) end.

Definition keyword (w : bytes) : option kw :=
  if beq w (str "and") then Some KAnd else if beq w (str "or") then Some KOr else if beq w (str "not") then Some KNot
  else if beq w (str "between") then Some KBetween else if beq w (str "in") then Some KIn
  else if beq w (str "similar") then Some KSimilar else if beq w (str "to") then Some KTo
  else if existsb (beq w) (map str ["select"; "from"; "where"; "is"; "null"; "true"; "false"; "like"; "ilike"; "as"; "case"; "when";
        "then"; "else"; "end"; "cast"; "union"; "exists"; "any"; "all"; "some"; "array"; "row"; "escape"; "isnull"; "notnull";
        "collate"; "at"; "order"; "by"; "group"; "having"; "limit"; "offset"; "on"; "using"; "join"; "distinct"; "into"; "table";
        "default"; "symmetric"; "asymmetric"; "overlaps"; "operator"; "unique"; "normalized"; "document"; "of"]) then Some KOtherKw
  else None.

(* operator: maximal munch with the comment-start cut and the trailing +/- rule *)
Fixpoint cut_comment (s : bytes) (acc : bytes) : bytes :=     (* longest prefix not containing "--" or "/*" *)
  match s with
  | a :: ((b :: _) as r) =>
      if (is_c a 45 && is_c b 45) || (is_c a 47 && is_c b 42) then rev acc else cut_comment r (a :: acc)
  | [a] => rev (a :: acc)
  | [] => rev acc
  end.
Definition special_op (c : ascii) : bool := existsb (is_c c) [126; 33; 64; 35; 94; 38; 124; 96; 63; 37].   (* ~!@#^&|`?% *)
Fixpoint strip_pm (r : bytes) : bytes :=     (* r reversed; strip trailing + and - while more than one char remains *)
  match r with
  | c :: ((_ :: _) as r') => if is_c c 43 || is_c c 45 then strip_pm r' else r
  | _ => r
  end.
Definition op_text (run : bytes) : bytes :=
  let o := cut_comment run [] in
  if existsb special_op o then o
  else match o with
       | [_] => o
       | _ => rev (strip_pm (rev o))
       end.

Definition next (s0 : bytes) : option (tok * bytes) :=
  let s := skip_ws s0 in
  match s with
  | [] => None
  | c :: r =>
    if is_c c 40 then Some (TLP, r) else if is_c c 41 then Some (TRP, r) else if is_c c 44 then Some (TComma, r)
    else if is_c c 59 then Some (TBad "statement separator", r)
    else if is_c c 34 then                                   (* "ident" *)
      match quoted_body (S (List.length r)) """"%char r [] with
      | Some ([], rest) => Some (TBad "zero-length delimited identifier", rest)
      | Some (b, rest) => Some (TIdent (truncate_ident b), rest)
      | None => Some (TBad "unterminated quoted identifier", [])
      end
    else if is_c c 39 then                                   (* 'string' *)
      match string_const (S (List.length r)) r [] with
      | Some (b, rest) => Some (TStr b, rest)
      | None => Some (TBad "unterminated quoted string", [])
      end
    else if is_c c 36 then                                   (* $n or $tag$ *)
      let '(d, rest) := span is_digit r [] in
      match d with [] => Some (TBad "dollar", r) | _ => if List.length d <=? 9 then Some (TParam d, rest) else Some (TBad "parameter number", rest) end
    else if is_digit c || (is_c c 46 && match r with d :: _ => is_digit d | [] => false end) then
      let '(ip, r1) := span is_digit s [] in
      let '(fp, r2) := match r1 with
                       | d :: r1' => if is_c d 46 then let '(f, r2) := span is_digit r1' [] in ((d :: f)%list, r2) else ([], r1)
                       | [] => ([], r1) end in
      let '(ep, r3) := match r2 with
                       | e :: r2' =>
                           if is_c e 101 || is_c e 69 then
                             let '(sg, r2s) := match r2' with x :: y => if is_c x 43 || is_c x 45 then ([x], y) else ([], r2') | [] => ([], r2') end in
                             let '(ed, r3) := span is_digit r2s [] in
                             match ed with [] => ([], r2) | _ => ((e :: sg ++ ed)%list, r3) end
                           else ([], r2)
                       | [] => ([], r2) end in
      Some (TNum (ip ++ fp ++ ep)%list, r3)
    else if is_ident_start c then
      let '(w, rest) := span is_ident_cont s [] in
      let lw := map lower w in
      match rest with
      | q :: q2 :: _ =>
                  if is_c q 39 && (beq lw (str "e") || beq lw (str "b") || beq lw (str "x") || beq lw (str "n"))
                  then Some (TBad "prefixed string", rest)
                  else if is_c q 38 && (is_c q2 39 || is_c q2 34) && beq lw (str "u") then Some (TBad "unicode escape", rest)
                  else match keyword lw with Some k => Some (TKw k, rest) | None => Some (TIdent (truncate_ident lw), rest) end
      | q :: _ => if is_c q 39 && (beq lw (str "e") || beq lw (str "b") || beq lw (str "x") || beq lw (str "n"))
                  then Some (TBad "prefixed string", rest)
                  else match keyword lw with Some k => Some (TKw k, rest) | None => Some (TIdent (truncate_ident lw), rest) end
      | [] => match keyword lw with Some k => Some (TKw k, rest) | None => Some (TIdent (truncate_ident lw), rest) end
      end
    else if is_op_char c then
      let '(run, _) := span is_op_char s [] in
      match run with
      | a :: b :: _ => if (is_c a 45 && is_c b 45) || (is_c a 47 && is_c b 42) then Some (TBad "comment", []) else
          let o := op_text run in Some (TOp (if beq o (str "!=") then str "<>" else o), skipn (List.length o) s)
      | _ => let o := op_text run in Some (TOp (if beq o (str "!=") then str "<>" else o), skipn (List.length o) s)
      end
    else if is_c c 58 || is_c c 46 || is_c c 91 || is_c c 93 then Some (TBad "self char", r)
    else Some (TBad "other character", r)
  end.

Fixpoint lex_all (fuel : nat) (s : bytes) : list tok :=
  match fuel with
  | 0 => [TBad "fuel"]
  | S f => match next s with None => [] | Some (t, rest) => t :: lex_all f rest end
  end.
Definition pg_lex (s : bytes) : list tok := lex_all (S (List.length s)) s.

(* ---------------- expression grammar (a_expr fragment) ---------------- *)
Inductive ast :=
| ACol (s : bytes) | AStr (s : bytes) | ANum (neg : bool) (s : bytes) | AParam (k : bytes)
| ABool (isand : bool) (args : list ast)        (* BoolExpr AND / OR, flattened like gram.y's makeAndExpr / makeOrExpr *)
| ANot (a : ast)
| AOp (op : bytes) (l r : ast)
| AUnary (op : bytes) (a : ast)
| AIn (l : ast) (items : list ast)
| ABetween (l lo hi : ast)
| ASimilar (l p : ast).

Inductive pres := POk (a : ast) (rest : list tok) | PFail (why : string).

Definition cmp_op (o : bytes) : bool := existsb (beq o) (map str ["="; "<"; ">"; "<="; ">="; "<>"; "!="]).
Definition addsub (o : bytes) : bool := beq o (str "+") || beq o (str "-").
Definition muldiv (o : bytes) : bool := beq o (str "*") || beq o (str "/") || beq o (str "%").

(* gram.y: doNegate folds unary minus on a numeric constant *)
Definition negate (a : ast) : ast := match a with ANum ng s => ANum (negb ng) s | _ => AUnary (str "-") a end.
Definition mk_and (l r : ast) : ast := match l with ABool true xs => ABool true (xs ++ [r]) | _ => ABool true [l; r] end.
Definition mk_or (l r : ast) : ast := match l with ABool false xs => ABool false (xs ++ [r]) | _ => ABool false [l; r] end.

(* precedence levels: 1 OR, 2 AND, 3 NOT, 4 comparison, 5 BETWEEN/IN/SIMILAR, 6 other operators, 7 + -, 8 * / %, 9 ^, 10 unary minus *)
Fixpoint expr (fuel : nat) (minp : nat) (restricted : bool) (ts : list tok) {struct fuel} : pres :=
  match fuel with
  | 0 => PFail "fuel"
  | S f =>
    (* prefix / primary *)
    let prim : pres :=
      match ts with
      | TKw KNot :: r => if restricted then PFail "NOT in b_expr" else
                         match expr f 3 false r with POk a r' => POk (ANot a) r' | e => e end
      | TOp o :: r =>
          if beq o (str "-") then match expr f 10 restricted r with POk a r' => POk (negate a) r' | e => e end
          else if beq o (str "+") then match expr f 10 restricted r with POk a r' => POk (AUnary o a) r' | e => e end
          else if cmp_op o || muldiv o || beq o (str "^") then PFail "not a prefix operator"
          else match expr f 7 restricted r with POk a r' => POk (AUnary o a) r' | e => e end
      | TLP :: r => match expr f 0 false r with
                    | POk a (TRP :: r') => POk a r'
                    | POk _ _ => PFail "expected )"
                    | e => e end
      | TIdent s :: r => POk (ACol s) r
      | TStr s :: r => POk (AStr s) r
      | TNum s :: r => POk (ANum false s) r
      | TParam k :: r => POk (AParam k) r
      | _ => PFail "syntax error"
      end in
    match prim with
    | PFail w => PFail w
    | POk l rest =>
      (* infix loop *)
      (fix loop (k : nat) (l : ast) (rest : list tok) (lastcmp : bool) {struct k} : pres :=
         match k with
         | 0 => PFail "fuel"
         | S k' =>
           match rest with
           | TKw KOr :: r => if restricted || (1 <? minp) then POk l rest else
               match expr f 2 false r with POk x r' => loop k' (mk_or l x) r' false | e => e end
           | TKw KAnd :: r => if restricted || (2 <? minp) then POk l rest else
               match expr f 3 false r with POk x r' => loop k' (mk_and l x) r' false | e => e end
           | TOp o :: r =>
               if cmp_op o then
                 if (4 <? minp) then POk l rest else if lastcmp then PFail "non-associative comparison" else
                 match expr f 5 restricted r with POk x r' => loop k' (AOp o l x) r' true | e => e end
               else if addsub o then
                 if (7 <? minp) then POk l rest else
                 match expr f 8 restricted r with POk x r' => loop k' (AOp o l x) r' false | e => e end
               else if muldiv o then
                 if (8 <? minp) then POk l rest else
                 match expr f 9 restricted r with POk x r' => loop k' (AOp o l x) r' false | e => e end
               else if beq o (str "^") then
                 if (9 <? minp) then POk l rest else
                 match expr f 10 restricted r with POk x r' => loop k' (AOp o l x) r' false | e => e end
               else
                 if (6 <? minp) then POk l rest else
                 match expr f 7 restricted r with POk x r' => loop k' (AOp o l x) r' false | e => e end
           | TKw KBetween :: r => if restricted || (5 <? minp) then POk l rest else
               match expr f 6 true r with
               | POk lo (TKw KAnd :: r2) =>
                   match expr f 6 false r2 with POk hi r3 => loop k' (ABetween l lo hi) r3 false | e => e end
               | POk _ _ => PFail "expected AND in BETWEEN"
               | e => e end
           | TKw KIn :: TLP :: r => if restricted || (5 <? minp) then POk l rest else
               (fix items (j : nat) (r : list tok) (acc : list ast) {struct j} : pres :=
                  match j with
                  | 0 => PFail "fuel"
                  | S j' => match expr f 0 false r with
                            | POk x (TComma :: r') => items j' r' (x :: acc)
                            | POk x (TRP :: r') => loop k' (AIn l (rev (x :: acc))) r' false
                            | POk _ _ => PFail "expected , or )"
                            | e => e end
                  end) (S (List.length r)) r []
           | TKw KSimilar :: TKw KTo :: r => if restricted || (5 <? minp) then POk l rest else
               match expr f 6 false r with POk p r' => loop k' (ASimilar l p) r' false | e => e end
           | _ => POk l rest
           end
         end) (S (List.length rest)) l rest false
    end
  end.

Definition pg_parse (ts : list tok) : option ast :=
  match expr (S (S (List.length ts))) 0 false ts with
  | POk a [] => Some a
  | _ => None
  end.

Definition pg_read (s : bytes) : option ast :=
  let ts := pg_lex s in
  if existsb (fun t => match t with TBad _ => true | _ => false end) ts then None else pg_parse ts.

