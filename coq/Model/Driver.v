(* Model of pkg/driver/base.go Render for an ARBITRARY table of render functions (C15): the driver is a fold over
   the tree which calls the function registered for each node's operator; `missing` = some reachable node has none. *)
Require Import Parser Render.
From Coq Require Import List Ascii String ZArith Bool Lia.
Import ListNotations.
Open Scope string_scope.

Section D.
Variable o2 : oracle2.
Variable fns : operator -> option (string -> string -> out sres).

Fixpoint render_with (e : expr) {struct e} : out sres :=
  match e with
  | E l op r _ _ =>
    do ls <- serialize_with l;
    match ls with
    | (_, Some er) => Ret ("", Some er)
    | (lf, None) =>
      do rs_ <- serialize_with r;
      match rs_ with
      | (_, Some er) => Ret ("", Some er)
      | (rt, None) =>
        let lf := wrap_if (negb (no_wrap_op op) && negb (is_simple l)) lf in
        let rt := wrap_if (negb (no_wrap_op op) && negb (is_simple r)) rt in
        match fns op with
        | None => Ret ("", Some "unable to render operator")
        | Some fn => fn lf rt
        end
      end
    end
  end
with serialize_with (v : value) {struct v} : out sres :=
  match v with
  | VNil => Ret ("", None)
  | VExp e => render_with e
  | VList l =>
      (fix each (l : list expr) (acc : list string) : out sres :=
         match l with
         | [] => Ret (join ", " (rev acc), None)
         | x :: rest =>
             do s <- render_with x;
             match s with
             | (s', Some er) => Ret (s', Some er)
             | (s', None) => each rest (s' :: acc)
             end
         end) l []
  | VBound mn mx incl =>
      do a <- serialize_with mn;
      match a with
      | (_, Some er) => Ret ("", Some er)
      | (smin, None) =>
        do b <- serialize_with mx;
        match b with
        | (_, Some er) => Ret ("", Some er)
        | (smax, None) => Ret ((if incl then "[" ++ smin ++ ", " ++ smax ++ "]" else "(" ++ smin ++ ", " ++ smax ++ ")"), None)
        end
      end
  | VCol c => Ret (ser_column c)
  | VStr s => Ret ("'" ++ replace_char "'"%char "''" s ++ "'", None)
  | VInt z => Ret (z_to_string z, None)
  | VFloat f => Ret (fmt_v o2 f, None)
  | VBool b => Ret (bool_str b, None)
  end.

(* the value-list loop of serialize, as a function of its own (same code as the inner fix above) *)
Fixpoint ser_list_with (l : list expr) (acc : list string) : out sres :=
  match l with
  | [] => Ret (join ", " (rev acc), None)
  | x :: rest =>
      do s <- render_with x;
      match s with
      | (s', Some er) => Ret (s', Some er)
      | (s', None) => ser_list_with rest (s' :: acc)
      end
  end.

Lemma serialize_with_list l : serialize_with (VList l) = ser_list_with l [].
Proof.
  cbn [serialize_with]. generalize (@nil string). induction l as [|x xs IH]; intros acc; [reflexivity|].
  cbn [ser_list_with]. destruct (render_with x) as [[s' [er|]]|]; cbn [bind]; [reflexivity | apply IH | reflexivity].
Qed.
Lemma serialize_with_exp e : serialize_with (VExp e) = render_with e.
Proof. reflexivity. Qed.


(* some node reachable through Left / Right / list elements / range bounds has no render function *)
Fixpoint missing (e : expr) {struct e} : bool :=
  match e with
  | E l op r _ _ => (match fns op with None => true | Some _ => false end) || vmissing l || vmissing r
  end
with vmissing (v : value) {struct v} : bool :=
  match v with
  | VExp e => missing e
  | VList l => (fix any (l : list expr) : bool := match l with [] => false | x :: r => missing x || any r end) l
  | VBound a b _ => vmissing a || vmissing b
  | _ => false
  end.

End D.

(* a Fuzzy or Boost node anywhere in the tree *)
Fixpoint has_fb (e : expr) {struct e} : bool :=
  match e with
  | E l op r _ _ => (match op with Fuzzy | Boost => true | _ => false end) || vhas_fb l || vhas_fb r
  end
with vhas_fb (v : value) {struct v} : bool :=
  match v with
  | VExp e => has_fb e
  | VList l => (fix any (l : list expr) : bool := match l with [] => false | x :: r => has_fb x || any r end) l
  | VBound a b _ => vhas_fb a || vhas_fb b
  | _ => false
  end.


(* ---------- the same fold, logging every call of a render function: (operator, left argument, right argument) ---------- *)
Definition call := (operator * string * string)%type.

Section Traced.
Variable o2 : oracle2.
Variable fns : operator -> option (string -> string -> out sres).

Fixpoint render_tr (e : expr) {struct e} : out (sres * list call) :=
  match e with
  | E l op r _ _ =>
    do ls <- serialize_tr l;
    match ls with
    | ((_, Some er), tl) => Ret (("", Some er), tl)
    | ((lf, None), tl) =>
      do rs_ <- serialize_tr r;
      match rs_ with
      | ((_, Some er), tr) => Ret (("", Some er), (tl ++ tr)%list)
      | ((rt, None), tr) =>
        let lf := wrap_if (negb (no_wrap_op op) && negb (is_simple l)) lf in
        let rt := wrap_if (negb (no_wrap_op op) && negb (is_simple r)) rt in
        match fns op with
        | None => Ret (("", Some "unable to render operator"), (tl ++ tr)%list)
        | Some fn => do x <- fn lf rt; Ret (x, (tl ++ tr ++ [(op, lf, rt)])%list)
        end
      end
    end
  end
with serialize_tr (v : value) {struct v} : out (sres * list call) :=
  match v with
  | VNil => Ret (("", None), [])
  | VExp e => render_tr e
  | VList l =>
      (fix each (l : list expr) (acc : list string) (tr : list call) : out (sres * list call) :=
         match l with
         | [] => Ret ((join ", " (rev acc), None), tr)
         | x :: rest =>
             do s <- render_tr x;
             match s with
             | ((s', Some er), t) => Ret ((s', Some er), (tr ++ t)%list)
             | ((s', None), t) => each rest (s' :: acc) (tr ++ t)%list
             end
         end) l [] []
  | VBound mn mx incl =>
      do a <- serialize_tr mn;
      match a with
      | ((_, Some er), ta) => Ret (("", Some er), ta)
      | ((smin, None), ta) =>
        do b <- serialize_tr mx;
        match b with
        | ((_, Some er), tb) => Ret (("", Some er), (ta ++ tb)%list)
        | ((smax, None), tb) => Ret (((if incl then "[" ++ smin ++ ", " ++ smax ++ "]" else "(" ++ smin ++ ", " ++ smax ++ ")"), None), (ta ++ tb)%list)
        end
      end
  | VCol c => Ret (ser_column c, [])
  | VStr s => Ret (("'" ++ replace_char "'"%char "''" s ++ "'", None), [])
  | VInt z => Ret ((z_to_string z, None), [])
  | VFloat f => Ret ((fmt_v o2 f, None), [])
  | VBool b => Ret ((bool_str b, None), [])
  end.

Fixpoint ser_list_tr (l : list expr) (acc : list string) (tr : list call) : out (sres * list call) :=
  match l with
  | [] => Ret ((join ", " (rev acc), None), tr)
  | x :: rest =>
      do s <- render_tr x;
      match s with
      | ((s', Some er), t) => Ret ((s', Some er), (tr ++ t)%list)
      | ((s', None), t) => ser_list_tr rest (s' :: acc) (tr ++ t)%list
      end
  end.
Lemma serialize_tr_list l : serialize_tr (VList l) = ser_list_tr l [] [].
Proof. destruct l; reflexivity. Qed.

(* the operators of the nodes of a tree in post-order: left subtree, right subtree, the node *)
Fixpoint postorder (e : expr) {struct e} : list operator :=
  match e with E l op r _ _ => (postorder_v l ++ postorder_v r ++ [op])%list end
with postorder_v (v : value) {struct v} : list operator :=
  match v with
  | VExp e => postorder e
  | VList l => (fix each (l : list expr) : list operator := match l with [] => [] | x :: rest => (postorder x ++ each rest)%list end) l
  | VBound a b _ => (postorder_v a ++ postorder_v b)%list
  | _ => []
  end.

End Traced.
