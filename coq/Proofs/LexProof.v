(* Scratch: C16 core — every token's text, preceded by skipped whitespace, is a prefix of the input *)
Require Import Lex.
From Coq Require Import List Ascii String NArith Bool Arith Lia.
Import ListNotations.

Section P.
Variable cl : classes.

Lemma take_onto_spec : forall w s acc s' acc',
  take_onto w s acc = (s', acc') -> rev acc' ++ s' = rev acc ++ s /\ List.length s' = List.length s - Nat.min w (List.length s).
Proof.
  induction w as [|w IH]; intros s acc s' acc' H; cbn in H.
  - inversion H; subst. split; auto. cbn. lia.
  - destruct s as [|c r].
    + inversion H; subst. split; auto.
    + apply IH in H. destruct H as [H1 H2]. split.
      * rewrite H1. cbn. rewrite <- app_assoc. reflexivity.
      * rewrite H2. cbn. lia.
Qed.

Lemma take_onto_len : forall w s acc s' acc', 1 <= w <= List.length s ->
  take_onto w s acc = (s', acc') -> List.length s' < List.length s.
Proof. intros w s acc s' acc' Hw H. apply take_onto_spec in H. destruct H as [_ H]. lia. Qed.

(* lexWord: the accumulated text plus the remaining input is preserved, the rest never grows *)
Lemma lex_word_spec : forall fuel s acc t rest,
  lex_word cl fuel s acc = Tok t rest ->
  val t ++ rest = rev acc ++ s /\ List.length rest <= List.length s.
Proof.
  induction fuel as [|f IH]; intros s acc t rest H; cbn [lex_word] in H; [discriminate|].
  destruct (decode_rune s) as [[r w]|] eqn:D.
  - pose proof (decode_width _ _ _ D) as Hw.
    destruct (is_alnum cl r || is_wildcard r || (r =? 46)%N || (r =? 45)%N).
    + destruct (take_onto w s acc) as [s' acc'] eqn:T.
      pose proof (take_onto_spec _ _ _ _ _ T) as [E L]. apply IH in H. destruct H as [H1 H2].
      split; [congruence | lia].
    + destruct (is_escape r).
      * destruct (take_onto w s acc) as [s1 acc1] eqn:T1.
        pose proof (take_onto_spec _ _ _ _ _ T1) as [E1 L1].
        destruct (decode_rune s1) as [[r2 w2]|] eqn:D2.
        -- destruct (take_onto w2 s1 acc1) as [s2 acc2] eqn:T2.
           pose proof (take_onto_spec _ _ _ _ _ T2) as [E2 L2]. apply IH in H. destruct H as [H1 H2].
           split; [congruence | lia].
        -- apply IH in H. destruct H as [H1 H2]. split; [congruence | lia].
      * inversion H; subst. cbn. split; auto.
  - inversion H; subst. cbn. split; auto.
Qed.

Lemma lex_phrase_spec : forall fuel open s acc t rest,
  lex_phrase cl fuel open s acc = Tok t rest ->
  val t ++ rest = rev acc ++ s /\ List.length rest <= List.length s.
Proof.
  induction fuel as [|f IH]; intros open s acc t rest H; cbn [lex_phrase] in H; [discriminate|].
  destruct (decode_rune s) as [[r w]|] eqn:D; [|discriminate].
  destruct (take_onto w s acc) as [s' acc'] eqn:T.
  pose proof (take_onto_spec _ _ _ _ _ T) as [E L].
  repeat match type of H with (if ?b then _ else _) = _ => destruct b end;
    try (apply IH in H; destruct H as [H1 H2]; split; [congruence | lia]).
  inversion H; subst. cbn. split; [congruence | lia].
Qed.

Lemma lex_regexp_spec : forall fuel open s acc t rest,
  lex_regexp cl fuel open s acc = Tok t rest ->
  val t ++ rest = rev acc ++ s /\ List.length rest <= List.length s.
Proof.
  induction fuel as [|f IH]; intros open s acc t rest H; cbn [lex_regexp] in H; [discriminate|].
  destruct (decode_rune s) as [[r w]|] eqn:D; [|discriminate].
  destruct (take_onto w s acc) as [s' acc'] eqn:T.
  pose proof (take_onto_spec _ _ _ _ _ T) as [E L].
  destruct (is_alnum cl r || is_wildcard r).
  { apply IH in H; destruct H as [H1 H2]; split; [congruence | lia]. }
  destruct (is_escape r).
  { destruct (decode_rune s') as [[r2 w2]|] eqn:D2.
    - destruct (take_onto w2 s' acc') as [s2 acc2] eqn:T2.
      pose proof (take_onto_spec _ _ _ _ _ T2) as [E2 L2].
      apply IH in H; destruct H as [H1 H2]; split; [congruence | lia].
    - apply IH in H; destruct H as [H1 H2]; split; [congruence | lia]. }
  destruct (is_space r).
  { apply IH in H; destruct H as [H1 H2]; split; [congruence | lia]. }
  destruct (r =? open)%N.
  { inversion H; subst. cbn. split; [congruence | lia]. }
  apply IH in H; destruct H as [H1 H2]; split; [congruence | lia].
Qed.

Definition ws_byte (c : ascii) : bool := is_space (ch c).

Lemma skip_space_spec : forall s, exists w, forallb ws_byte w = true /\ s = w ++ skip_space s /\
  match skip_space s with c :: _ => ws_byte c = false | [] => True end.
Proof.
  induction s as [|c r IH]; cbn [skip_space].
  - exists []. auto.
  - destruct (is_space (ch c)) eqn:E.
    + destruct IH as (w & W1 & W2 & W3). exists (c :: w). cbn. unfold ws_byte at 1. rewrite E, W1. split; auto. split; [congruence|auto].
    + exists []. cbn. unfold ws_byte. rewrite E. auto.
Qed.

(* the word state consumes at least its first rune *)
Lemma lex_word_progress : forall f s acc t rest r w,
  decode_rune s = Some (r, w) ->
  (is_alnum cl r || is_wildcard r || (r =? 46)%N || (r =? 45)%N || is_escape r) = true ->
  lex_word cl (S f) s acc = Tok t rest -> List.length rest < List.length s.
Proof.
  intros f s acc t rest r w D C H. cbn [lex_word] in H. rewrite D in H.
  pose proof (decode_width _ _ _ D) as Hw.
  destruct (is_alnum cl r || is_wildcard r || (r =? 46)%N || (r =? 45)%N) eqn:C1.
  - destruct (take_onto w s acc) as [s' acc'] eqn:T.
    pose proof (take_onto_spec _ _ _ _ _ T) as [_ L]. apply lex_word_spec in H. destruct H as [_ H]. lia.
  - cbn in C. rewrite C in H.
    destruct (take_onto w s acc) as [s1 acc1] eqn:T1.
    pose proof (take_onto_spec _ _ _ _ _ T1) as [_ L1].
    destruct (decode_rune s1) as [[r2 w2]|] eqn:D2.
    + destruct (take_onto w2 s1 acc1) as [s2 acc2] eqn:T2.
      pose proof (take_onto_spec _ _ _ _ _ T2) as [_ L2]. apply lex_word_spec in H. destruct H as [_ H]. lia.
    + apply lex_word_spec in H. destruct H as [_ H]. lia.
Qed.

Lemma word_type_proper w : word_type w <> TEOF /\ word_type w <> TErr.
Proof. unfold word_type. repeat match goal with |- context [if ?b then _ else _] => destruct b end; split; discriminate. Qed.

Lemma lex_word_typ : forall f s acc t rest, lex_word cl f s acc = Tok t rest -> typ t <> TEOF /\ typ t <> TErr.
Proof.
  induction f as [|f IH]; intros s acc t rest H; cbn [lex_word] in H; [discriminate|].
  destruct (decode_rune s) as [[r w]|].
  - destruct (is_alnum cl r || is_wildcard r || (r =? 46)%N || (r =? 45)%N).
    + destruct (take_onto w s acc). eapply IH; eauto.
    + destruct (is_escape r).
      * destruct (take_onto w s acc) as [s1 acc1]. destruct (decode_rune s1) as [[r2 w2]|].
        -- destruct (take_onto w2 s1 acc1). eapply IH; eauto.
        -- eapply IH; eauto.
      * inversion H; subst. cbn. apply word_type_proper.
  - inversion H; subst. cbn. apply word_type_proper.
Qed.
Lemma lex_phrase_typ : forall f open s acc t rest, lex_phrase cl f open s acc = Tok t rest -> typ t = TQuoted.
Proof.
  induction f as [|f IH]; intros open s acc t rest H; cbn [lex_phrase] in H; [discriminate|].
  destruct (decode_rune s) as [[r w]|]; [|discriminate]. destruct (take_onto w s acc).
  repeat match type of H with (if ?b then _ else _) = _ => destruct b end; try (eapply IH; eauto; fail).
  inversion H; subst. reflexivity.
Qed.
Lemma lex_regexp_typ : forall f open s acc t rest, lex_regexp cl f open s acc = Tok t rest -> typ t = TRegexp.
Proof.
  induction f as [|f IH]; intros open s acc t rest H; cbn [lex_regexp] in H; [discriminate|].
  destruct (decode_rune s) as [[r w]|]; [|discriminate]. destruct (take_onto w s acc) as [s' acc'].
  destruct (is_alnum cl r || is_wildcard r); [eapply IH; eauto|].
  destruct (is_escape r).
  { destruct (decode_rune s') as [[r2 w2]|]; [destruct (take_onto w2 s' acc')|]; eapply IH; eauto. }
  destruct (is_space r); [eapply IH; eauto|].
  destruct (r =? open)%N; [inversion H; subst; reflexivity | eapply IH; eauto].
Qed.

Definition proper (t : token) : Prop := typ t <> TEOF /\ typ t <> TErr.

(* Next(): a proper token's text follows skipped whitespace and strictly shortens the input *)
Theorem next_token_lossless : forall s t rest,
  next_token cl s = (t, rest) -> proper t ->
  exists w, forallb ws_byte w = true /\ s = w ++ val t ++ rest /\ List.length rest < List.length s.
Proof.
  intros s t rest H [Parser P2]. unfold next_token in H. cbv zeta in H.
  destruct (skip_space_spec s) as (w & W1 & W2 & W3).
  set (s1 := skip_space s) in *. clearbody s1.
  assert (Hgoal : val t ++ rest = s1 /\ List.length rest < List.length s1 ->
          exists w0, forallb ws_byte w0 = true /\ s = w0 ++ val t ++ rest /\ List.length rest < List.length s).
  { intros [A B]. exists w. split; auto. split; [rewrite A; exact W2|]. rewrite W2, app_length. lia. }
  destruct (decode_rune s1) as [[r wd]|] eqn:D.
  2:{ inversion H; subst. exfalso. apply Parser. reflexivity. }
  pose proof (decode_width _ _ _ D) as Hw.
  assert (Hword : forall x, (match x with Tok t0 rest0 => (t0, rest0) | LErr => (err_tok, []) end) = (t, rest) ->
            x = lex_word cl (S (List.length s1)) s1 [] ->
            (is_alnum cl r || is_wildcard r || (r =? 46)%N || (r =? 45)%N || is_escape r) = true ->
            val t ++ rest = s1 /\ List.length rest < List.length s1).
  { intros x Hx Ex C. destruct x as [t0 rest0|]; [|inversion Hx; subst; exfalso; apply P2; reflexivity].
    inversion Hx; subst t0 rest0. symmetry in Ex. split.
    - apply lex_word_spec in Ex. destruct Ex as [Ex _]. exact Ex.
    - eapply lex_word_progress; eauto. }
  destruct (is_alnum cl r || is_wildcard r || is_escape r) eqn:C0.
  { apply Hgoal. apply (Hword (lex_word cl (S (List.length s1)) s1 [])); [exact H | reflexivity |].
    apply orb_true_iff in C0. destruct C0 as [C0|C0]; [apply orb_true_iff in C0; destruct C0 as [C0|C0]|];
      rewrite C0; rewrite ?orb_true_r; reflexivity. }
  destruct (symbol r) as [ty|].
  { destruct (take_onto wd s1 []) as [s' acc] eqn:T. inversion H; subst. cbn [val].
    pose proof (take_onto_spec _ _ _ _ _ T) as [E L]. apply Hgoal. split; [exact E|lia]. }
  destruct (r =? 45)%N eqn:C45.
  { destruct (take_onto wd s1 []) as [s' acc] eqn:T.
    pose proof (take_onto_spec _ _ _ _ _ T) as [E L].
    assert (Hminus : (({| typ := TMinus; val := rev acc |}, s') = (t, rest)) -> val t ++ rest = s1 /\ List.length rest < List.length s1).
    { intros Hm. inversion Hm; subst. cbn [val]. split; [exact E|lia]. }
    destruct (decode_rune s') as [[r2 w2]|].
    - destruct (is_digit cl r2).
      + apply Hgoal. apply (Hword (lex_word cl (S (List.length s1)) s1 [])); [exact H | reflexivity |]. rewrite orb_true_r. reflexivity.
      + apply Hgoal. auto.
    - apply Hgoal. auto. }
  destruct ((r =? 34)%N || (r =? 39)%N).
  { destruct (take_onto wd s1 []) as [s' acc] eqn:T.
    pose proof (take_onto_spec _ _ _ _ _ T) as [E L].
    destruct (lex_phrase cl (S (List.length s1)) r s' acc) as [t0 rest0|] eqn:EP; [|inversion H; subst; exfalso; apply P2; reflexivity].
    inversion H; subst t0 rest0. apply lex_phrase_spec in EP. destruct EP as [EP1 EP2].
    apply Hgoal. cbn in E. split; [rewrite EP1; exact E|lia]. }
  destruct (r =? 47)%N.
  { destruct (take_onto wd s1 []) as [s' acc] eqn:T.
    pose proof (take_onto_spec _ _ _ _ _ T) as [E L].
    destruct (lex_regexp cl (S (List.length s1)) r s' acc) as [t0 rest0|] eqn:EP; [|inversion H; subst; exfalso; apply P2; reflexivity].
    inversion H; subst t0 rest0. apply lex_regexp_spec in EP. destruct EP as [EP1 EP2].
    apply Hgoal. cbn in E. split; [rewrite EP1; exact E|lia]. }
  inversion H; subst. exfalso. apply P2. reflexivity.
Qed.

(* the whole token stream: proper tokens, separated by skipped whitespace, are a prefix of the input;
   it stops at the first end-of-input or error token *)
Fixpoint segments (s : bytes) (ts : list token) : Prop :=
  match ts with
  | [] => True
  | t :: ts' =>
      match typ t with
      | TEOF | TErr => ts' = []
      | _ => exists w rest, forallb ws_byte w = true /\ s = w ++ val t ++ rest /\ segments rest ts'
      end
  end.

Theorem lex_lossless : forall fuel s, segments s (lex_all cl fuel s).
Proof.
  induction fuel as [|f IH]; intros s; cbn [lex_all]; [exact I|].
  destruct (next_token cl s) as [t rest] eqn:E.
  destruct (typ t) eqn:Ty; cbn [segments]; rewrite ?Ty; auto;
    (destruct (next_token_lossless s t rest E) as (w & W1 & W2 & W3); [split; rewrite Ty; discriminate|];
     exists w, rest; split; auto).
Qed.
Print Assumptions lex_lossless.

End P.
