(* Scratch: C11 — parsing with a default field f is parsing without one followed by scoping the bare terms *)
Require Import Parser ParserShape ParserLay.
Require Export Scope.
From Coq Require Import List String ZArith Bool Lia Arith.
Import ListNotations.
Close Scope string_scope.
Open Scope nat_scope.

Arguments parse_literal : simpl never.
Arguments to_positive_float : simpl never.
Arguments expr_new : simpl never.
Arguments wrap_literal : simpl never.
Arguments drop : simpl never.

Section C11.
Variable o : oracle.
Variable f : string.
Hypothesis f_nonempty : String.eqb f "" = false.

Notation scw := (Build.scw f).
Notation sci := (Scope.sci f).
Notation scope := (Scope.scope f).
Notation clean := (Scope.clean f).
Notation vclean := (Scope.vclean f).

Definition sci_item (i : item) : item := match i with ITok t => ITok t | IExp e => IExp (sci e) end.

(* sci keeps the operator, and the value of leaves *)
Lemma sci_op e : e_op (sci e) = e_op e.
Proof.
  destruct e as [l op r b z]. destruct op, l, r; cbn; try reflexivity;
    repeat match goal with |- context [match ?v with _ => _ end] => destruct v end; reflexivity.
Qed.

Lemma sci_leaf e : is_leaf_op (e_op e) = true -> sci e = e.
Proof. destruct e as [l op r b z]. destruct op; cbn; try discriminate; destruct l; reflexivity. Qed.

Lemma sci_left_int e n : wf false e = true -> e_left e = VInt n -> sci e = e.
Proof.
  destruct e as [l op r b z]. cbn. intros W ->. destruct op; cbn in *; try discriminate; reflexivity.
Qed.


Definition lift (x : option (out (list item * list token))) : option (out (list item * list token)) :=
  match x with
  | Some (Ret (t, n)) => Some (Ret (map sci_item t, n))
  | Some (Panic s) => Some (Panic s)
  | None => None
  end.

Lemma wrap_A e : wrap_literal e f = Ret (scw e).
Proof. apply ParserLay.wrap_literal_scw. Qed.
Lemma wrap_B e : wrap_literal e ""%string = Ret e.
Proof. reflexivity. Qed.

(* destruct the shape of a list of items far enough for the reducers' patterns *)
Ltac items top :=
  destruct top as [|[?|?] [|[?|?] [|[?|?] [|[?|?] [|[?|?] [|[?|?] [|[?|?] [|? ?]]]]]]]]; cbn [map sci_item]; try reflexivity.

Lemma and_or_commute which mk top nts : (mk = And \/ mk = Or) ->
  r_and_or which mk (map sci_item top) nts f = lift (r_and_or which mk top nts ""%string).
Proof.
  intros Hmk. unfold r_and_or. items top.
  destruct (is which t); [|reflexivity].
  rewrite !wrap_A, !wrap_B. cbn [bind]. rewrite !ParserShape.expr_new_bin by auto. cbn [bind].
  destruct (drop 1 nts); cbn [bind lift map sci_item]; [|reflexivity].
  destruct Hmk as [->| ->]; reflexivity.
Qed.


Lemma prefix_commute which mk top nts : (mk = Must \/ mk = MustNot) ->
  r_prefix which mk (map sci_item top) nts f = lift (r_prefix which mk top nts ""%string).
Proof.
  intros Hmk. unfold r_prefix. items top.
  destruct (is which t); [|reflexivity].
  rewrite wrap_A, wrap_B. cbn [bind]. rewrite !ParserShape.expr_new_un by tauto. cbn [bind].
  destruct (drop 1 nts); cbn [bind lift map sci_item]; [|reflexivity].
  destruct Hmk as [->| ->]; reflexivity.
Qed.

Lemma sub_commute top nts : r_sub (map sci_item top) nts f = lift (r_sub top nts ""%string).
Proof.
  unfold r_sub. items top.
  destruct (is TLParen t && is TRParen t0); [|reflexivity].
  destruct (drop 2 nts); reflexivity.
Qed.

Lemma sci_left_cases e :
  e_left (sci e) = e_left e \/ (exists x y, e_left (sci e) = VExp x /\ e_left e = VExp y).
Proof.
  destruct e as [l op r b z]. destruct l; try (left; destruct op; reflexivity).
  right. destruct op, r; cbn; try (eexists; eexists; split; reflexivity);
    repeat match goal with |- context [match ?v with _ => _ end] => destruct v end; eexists; eexists; split; reflexivity.
Qed.

Lemma sci_left_op e :
  (match e_left (sci e), e_op (sci e) with VInt n, Literal => Some n | _, _ => None end) =
  (match e_left e, e_op e with VInt n, Literal => Some n | _, _ => None end).
Proof.
  rewrite sci_op. destruct (sci_left_cases e) as [->|(x & y & -> & ->)]; reflexivity.
Qed.

Lemma to_pos_sci e : to_positive_float o (sci e) = to_positive_float o e.
Proof.
  unfold to_positive_float. rewrite sci_op. destruct (sci_left_cases e) as [->|(x & y & -> & ->)]; [reflexivity|].
  destruct (e_op e); reflexivity.
Qed.

Lemma fuzzy_commute top nts : items_wf top ->
  r_fuzzy (map sci_item top) nts f = lift (r_fuzzy top nts ""%string).
Proof.
  intros HW. unfold r_fuzzy. items top.
  - destruct (is TTilde t); [|reflexivity].
    rewrite wrap_A, wrap_B. cbn [bind]. rewrite !ParserShape.expr_new_fuzzy. cbn [bind].
    destruct (drop 1 nts); reflexivity.
  - destruct (is TTilde t); [|reflexivity].
    assert (We0 : wf false e0 = true) by (apply HW; right; right; left; reflexivity).
    pose proof (sci_left_op e0) as HL.
    destruct (e_left (sci e0)) eqn:A1; destruct (e_op (sci e0)) eqn:A2;
    destruct (e_left e0) eqn:B1; destruct (e_op e0) eqn:B2; try discriminate; try reflexivity.
    inversion HL; subst.
    rewrite wrap_A, wrap_B. cbn [bind]. rewrite !ParserShape.expr_new_fuzzy. cbn [bind].
    destruct (drop 1 nts); reflexivity.
Qed.

Lemma boost_commute top nts : items_wf top ->
  r_boost o (map sci_item top) nts f = lift (r_boost o top nts ""%string).
Proof.
  intros HW. unfold r_boost. items top.
  - destruct (is TCarrot t); [|reflexivity].
    rewrite wrap_A, wrap_B. cbn [bind]. rewrite !ParserShape.expr_new_boost. cbn [bind].
    destruct (drop 1 nts); reflexivity.
  - destruct (is TCarrot t); [|reflexivity].
    assert (We0 : wf false e0 = true) by (apply HW; right; right; left; reflexivity).
    rewrite (to_pos_sci e0). destruct (to_positive_float o e0); [|reflexivity].
    rewrite wrap_A, wrap_B. cbn [bind]. rewrite !ParserShape.expr_new_boost. cbn [bind].
    destruct (drop 1 nts); reflexivity.
Qed.

(* colwrap commutes with sci *)
Lemma sci_nonexp e : (forall x, e_left e <> VExp x) -> sci e = e.
Proof.
  destruct e as [l op r b z]. cbn. intros H. destruct l; try (destruct op; reflexivity). exfalso. eapply H. reflexivity.
Qed.

Lemma colwrap_sci t : colwrap (sci t) = sci (colwrap t).
Proof.
  unfold colwrap. destruct (e_left t) eqn:EL;
    try (destruct (sci_left_cases t) as [Hc|(x & y & Hx & Hy)]; [rewrite Hc, EL; reflexivity | rewrite Hx; reflexivity]).
  (* VStr: t has a non-expression left, so sci t = t *)
  rewrite (sci_nonexp t) by (intros x Hx; rewrite EL in Hx; discriminate). rewrite EL. reflexivity.
Qed.


Lemma like_sci v : wf false v = true -> should_use_like (VExp (sci v)) = should_use_like (VExp v).
Proof. intros W. cbn. rewrite sci_op. reflexivity. Qed.

Lemma compare_commute top nts : items_wf top ->
  r_compare (map sci_item top) nts f = lift (r_compare top nts ""%string).
Proof.
  intros HW. unfold r_compare. items top.
  destruct (is TColon t && (is TGreater t0 || is TLess t0)); [|reflexivity].
  assert (We : wf false e = true) by (apply HW; left; reflexivity).
  assert (We0 : wf false e0 = true) by (apply HW; right; right; right; left; reflexivity).
  rewrite !ParserShape.expr_new_field by (destruct (is TGreater t0); tauto). cbn [bind].
  destruct (drop 2 nts); cbn [bind lift map sci_item]; [|reflexivity].
  rewrite like_sci by auto. rewrite colwrap_sci.
  destruct (is TGreater t0); cbn [op_eqb andb]; reflexivity.
Qed.

Lemma compare_eq_commute top nts : items_wf top ->
  r_compare_eq (map sci_item top) nts f = lift (r_compare_eq top nts ""%string).
Proof.
  intros HW. unfold r_compare_eq. items top.
  destruct (is TColon t && (is TGreater t0 || is TLess t0) && is TEqual t1); [|reflexivity].
  assert (We : wf false e = true) by (apply HW; left; reflexivity).
  assert (We0 : wf false e0 = true) by (apply HW; right; right; right; right; left; reflexivity).
  rewrite !ParserShape.expr_new_field by (destruct (is TGreater t0); tauto). cbn [bind].
  destruct (drop 3 nts); cbn [bind lift map sci_item]; [|reflexivity].
  rewrite like_sci by auto. rewrite colwrap_sci.
  destruct (is TGreater t0); cbn [op_eqb andb]; reflexivity.
Qed.

Lemma range_commute top nts : items_wf top ->
  r_range (map sci_item top) nts f = lift (r_range top nts ""%string).
Proof.
  intros HW. unfold r_range. items top.
  destruct (is TColon t && (is TLSquare t0 || is TLCurly t0) && (is TRSquare t2 || is TRCurly t2) && is TTO t1); [|reflexivity].
  assert (We : wf false e = true) by (apply HW; left; reflexivity).
  rewrite !ParserShape.expr_new_range. cbn [bind].
  destruct (drop 4 nts); cbn [bind lift map sci_item]; [|reflexivity].
  rewrite colwrap_sci. reflexivity.
Qed.


Lemma chained_sci : forall n v, esize v <= n -> clean v = true ->
  chained_or_literals f (sci v) = chained_or_literals ""%string v.
Proof.
  induction n as [|n IH]; intros v Hs Hc; [destruct v; cbn in Hs; lia|].
  destruct v as [l op r b z].
  destruct op; try (destruct l, r; cbn; try reflexivity;
    repeat match goal with |- context [match ?x with _ => _ end] => destruct x end; reflexivity).
  - (* Or *)
    destruct l as [| | | | | | x | |]; try (destruct r; reflexivity).
    destruct r as [| | | | | | y | |]; try reflexivity.
    cbn [sci]. rewrite (col_unfold f). rewrite (col_unfold ""%string).
    cbn [unwrap_df]. cbn in Hs, Hc. apply andb_true_iff in Hc. destruct Hc as [Hx Hy].
    assert (Hsub : forall w, esize w <= n -> clean w = true ->
              chained_or_literals f (scw (sci w)) = chained_or_literals ""%string w).
    { intros w Hw Hcw. unfold Build.scw. rewrite f_nonempty. rewrite sci_op.
      destruct (is_leaf_op (e_op w)) eqn:LW.
      - rewrite (sci_leaf w LW).
        rewrite (col_unfold f). unfold unwrap_df. cbn [e_left lit empty_e].
        destruct w as [wl wop wr wb wz]. cbn in LW.
        destruct wop; try discriminate; cbn [should_use_like e_op].
        + (* Literal *) cbn [empty_e]. rewrite f_nonempty. cbn [negb andb value_eqb_col]. rewrite String.eqb_refl. cbn. destruct wl, wr; reflexivity.
        + (* Wild *) cbn. destruct wl, wr; reflexivity.
        + (* Regexp *) cbn. destruct wl, wr; reflexivity.
      - apply IH; auto. }
    rewrite (Hsub x) by (auto; lia). rewrite (Hsub y) by (auto; lia). reflexivity.
  - (* Equals: explicit field, never the default one *)
    destruct l as [| | | | | | t | |]; try (destruct r; reflexivity).
    destruct r as [| | | | | | w | |]; try reflexivity.
    cbn [sci]. rewrite (col_unfold f). rewrite (col_unfold ""%string). cbn [unwrap_df].
    cbn in Hc. apply andb_true_iff in Hc. destruct Hc as [Ht Hw].
    rewrite f_nonempty. cbn [negb andb].
    assert (Hv : value_eqb_col (e_left (sci t)) f = false).
    { destruct (sci_left_cases t) as [->|(x & y & -> & _)]; [|reflexivity].
      destruct t as [tl top tr tb tz]. cbn in Ht |- *. apply andb_true_iff in Ht. destruct Ht as [Ht _].
      destruct tl; cbn in *; auto. apply negb_true_iff in Ht. exact Ht. }
    rewrite Hv. cbn. reflexivity.
Qed.


Definition items_clean (l : list item) : Prop := forall e, In (IExp e) l -> clean e = true.

Lemma equal_commute top nts : items_wf top -> items_clean top ->
  r_equal (map sci_item top) nts f = lift (r_equal top nts ""%string).
Proof.
  intros HW HC. unfold r_equal. items top.
  destruct (is TEqual t || is TColon t); [|reflexivity].
  assert (We : wf false e = true) by (apply HW; left; reflexivity).
  assert (We0 : wf false e0 = true) by (apply HW; right; right; left; reflexivity).
  assert (Ce0 : clean e0 = true) by (apply HC; right; right; left; reflexivity).
  rewrite (chained_sci (esize e0) e0) by auto.
  destruct (chained_or_literals ""%string e0) as [lits ok].
  destruct (ok && (1 <? List.length lits)).
  - rewrite !ParserShape.expr_new_list. cbn [bind]. rewrite !ParserShape.expr_new_in. cbn [bind].
    destruct (drop 1 nts); cbn [bind lift map sci_item]; [|reflexivity].
    rewrite colwrap_sci. reflexivity.
  - unfold eq_. rewrite !ParserShape.expr_new_field by tauto. cbn [bind].
    destruct (drop 1 nts); cbn [bind lift map sci_item]; [|reflexivity].
    rewrite like_sci by auto. rewrite colwrap_sci. cbn [op_eqb andb].
    destruct (should_use_like (VExp e0)); reflexivity.
Qed.

Lemma split_last2_map (l : list item) :
  split_last2 (map sci_item l) =
  match split_last2 l with Some (p, a, b) => Some (map sci_item p, sci_item a, sci_item b) | None => None end.
Proof.
  induction l as [|x l IH]; [reflexivity|].
  destruct l as [|y l]; [reflexivity|]. destruct l as [|z l]; [reflexivity|].
  change (split_last2 (map sci_item (x :: y :: z :: l))) with
    (match split_last2 (map sci_item (y :: z :: l)) with Some (p0, a0, b0) => Some (sci_item x :: p0, a0, b0) | None => None end).
  rewrite IH.
  change (split_last2 (x :: y :: z :: l)) with
    (match split_last2 (y :: z :: l) with Some (p0, a0, b0) => Some (x :: p0, a0, b0) | None => None end).
  destruct (split_last2 (y :: z :: l)) as [[[p a] b]|]; reflexivity.
Qed.

Lemma not_commute top nts : r_not (map sci_item top) nts f = lift (r_not top nts ""%string).
Proof.
  unfold r_not. rewrite split_last2_map.
  destruct (split_last2 top) as [[[p a] b]|]; [|reflexivity].
  destruct a as [t|]; [|destruct b; reflexivity]. destruct b as [|x]; [reflexivity|]. cbn [sci_item].
  destruct (is TNot t); [|reflexivity].
  rewrite wrap_A, wrap_B. cbn [bind]. rewrite !ParserShape.expr_new_un by tauto. cbn [bind].
  destruct (drop 1 nts); cbn [bind lift]; [|reflexivity].
  rewrite map_app. reflexivity.
Qed.

(* all reducers together *)
Lemma try_reducers_commute top nts : items_wf top -> items_clean top ->
  try_reducers (reducers o) (map sci_item top) nts f = lift (try_reducers (reducers o) top nts ""%string).
Proof.
  intros HW HC. unfold reducers. cbn [try_reducers].
  rewrite (and_or_commute TAnd And) by auto. destruct (r_and_or TAnd And top nts ""%string) as [[[? ?]|]|]; try reflexivity.
  rewrite (and_or_commute TOr Or) by auto. destruct (r_and_or TOr Or top nts ""%string) as [[[? ?]|]|]; try reflexivity.
  rewrite equal_commute by auto. destruct (r_equal top nts ""%string) as [[[? ?]|]|]; try reflexivity.
  rewrite compare_commute by auto. destruct (r_compare top nts ""%string) as [[[? ?]|]|]; try reflexivity.
  rewrite compare_eq_commute by auto. destruct (r_compare_eq top nts ""%string) as [[[? ?]|]|]; try reflexivity.
  rewrite not_commute. destruct (r_not top nts ""%string) as [[[? ?]|]|]; try reflexivity.
  rewrite sub_commute. destruct (r_sub top nts ""%string) as [[[? ?]|]|]; try reflexivity.
  rewrite (prefix_commute TPlus Must) by auto. destruct (r_prefix TPlus Must top nts ""%string) as [[[? ?]|]|]; try reflexivity.
  rewrite (prefix_commute TMinus MustNot) by auto. destruct (r_prefix TMinus MustNot top nts ""%string) as [[[? ?]|]|]; try reflexivity.
  rewrite fuzzy_commute by auto. destruct (r_fuzzy top nts ""%string) as [[[? ?]|]|]; try reflexivity.
  rewrite boost_commute by auto. destruct (r_boost o top nts ""%string) as [[[? ?]|]|]; try reflexivity.
  rewrite range_commute by auto. destruct (r_range top nts ""%string) as [[[? ?]|]|]; reflexivity.
Qed.


(* ---------- reduce() commutes ---------- *)
Definition map_rres (x : rres) : rres :=
  match x with ROk r n => ROk (map sci_item r) n | RFail => RFail | RPanic s => RPanic s end.

Lemma map_rev_append (a b : list item) : map sci_item (rev_append a b) = rev_append (map sci_item a) (map sci_item b).
Proof. revert b. induction a as [|x a IH]; intros b; cbn; auto. rewrite IH. reflexivity. Qed.

Lemma items_wf_cons x l : items_wf (x :: l) -> items_wf l.
Proof. intros H e He. apply H. right. assumption. Qed.
Lemma items_clean_cons x l : items_clean (x :: l) -> items_clean l.
Proof. intros H e He. apply H. right. assumption. Qed.
Lemma items_wf_push x r top : items_wf (x :: r) -> items_wf top -> items_wf (x :: top).
Proof. intros H1 H2 e [He|He]; [apply H1; left; assumption | apply H2; assumption]. Qed.
Lemma items_clean_push x r top : items_clean (x :: r) -> items_clean top -> items_clean (x :: top).
Proof. intros H1 H2 e [He|He]; [apply H1; left; assumption | apply H2; assumption]. Qed.

Lemma reduce_commute : forall r top nts, items_wf r -> items_wf top -> items_clean r -> items_clean top ->
  reduce_loop o (map sci_item r) (map sci_item top) nts f = map_rres (reduce_loop o r top nts ""%string).
Proof.
  induction r as [|x r IH]; intros top nts Wr Wt Cr Ct; [reflexivity|].
  cbn [map reduce_loop].
  change (sci_item x :: map sci_item top) with (map sci_item (x :: top)).
  rewrite try_reducers_commute by (eauto using items_wf_push, items_clean_push).
  destruct (try_reducers (reducers o) (x :: top) nts ""%string) as [[[t n]|]|]; cbn [lift map_rres].
  - rewrite map_rev_append. reflexivity.
  - reflexivity.
  - apply IH; eauto using items_wf_cons, items_clean_cons, items_wf_push, items_clean_push.
Qed.

(* ---------- cleanliness is preserved by the run without a default field ---------- *)
Lemma clean_colwrap t : clean t = true -> clean (colwrap t) = true.
Proof.
  unfold colwrap. destruct t as [l op r b z]. cbn [e_left]. destruct l; auto.
  cbn. intros H. apply andb_true_iff in H. destruct H as [H _]. rewrite H. reflexivity.
Qed.

Lemma chained_clean : forall n v lits ok, esize v <= n -> clean v = true ->
  chained_or_literals ""%string v = (lits, ok) -> forallb clean lits = true.
Proof.
  induction n as [|n IH]; intros v lits ok Hs Hc H; [destruct v; cbn in Hs; lia|].
  rewrite (col_unfold ""%string) in H.
  assert (Hu : unwrap_df ""%string v = v) by (destruct v as [l op r b z]; destruct l; auto; destruct op; auto; destruct r; auto).
  rewrite Hu in H. destruct v as [l op r b z].
  destruct op; try (destruct l; try (inversion H; reflexivity); destruct r; inversion H; reflexivity).
  - destruct l as [| | | | | | x | |]; try (inversion H; reflexivity). destruct r as [| | | | | | y | |]; try (inversion H; reflexivity).
    cbn in Hs, Hc. apply andb_true_iff in Hc. destruct Hc as [Hx Hy].
    destruct (chained_or_literals ""%string x) as [ll okl] eqn:Ex. destruct (chained_or_literals ""%string y) as [rl okr] eqn:Ey.
    inversion H; subst. rewrite forallb_app.
    rewrite (IH x ll okl) by (auto; lia). rewrite (IH y rl okr) by (auto; lia). reflexivity.
  - destruct l; inversion H; subst; cbn [forallb]; rewrite andb_true_r; exact Hc.
Qed.

End C11.
