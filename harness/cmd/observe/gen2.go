package main

import (
	"encoding/json"
	"fmt"
	"strings"
	"unicode"
	"unicode/utf8"

	lucene "github.com/grindlemire/go-lucene"
)

// ---- C08: quoting and escaping ---------------------------------------------------------------------

var quoteAlphabet = []string{"a", "b", "Z", "5", "0", " ", "  ", "\t", "AND", "OR", "NOT", "TO", ":", "(", ")", "[", "]", "{", "}", "+", "-", "~", "^",
	">", "<", "=", "*", "?", "/", `\`, "'", "''", ";", "--", "/*", "*/", ",", ".", "%", "_", "é", "日", "😀", "\u2028", "NaN", "1e6", "%!", "$1", "\n"}

func randText(maxParts int, alphabet []string) string {
	n := rng.Intn(maxParts + 1)
	var sb strings.Builder
	for i := 0; i < n; i++ {
		sb.WriteString(pick(alphabet))
	}
	return sb.String()
}

func isSpecial(r rune) bool {
	return !(r == '_' || unicode.IsLetter(r) || unicode.IsDigit(r))
}

// esc puts a backslash before every special character, and before the first letter of a keyword
func esc(w string) string {
	var sb strings.Builder
	for _, r := range w {
		if isSpecial(r) {
			sb.WriteByte('\\')
		}
		sb.WriteRune(r)
	}
	s := sb.String()
	switch strings.ToUpper(s) {
	case "AND", "OR", "NOT", "TO":
		return `\` + s
	}
	return s
}

func genQuote(n int) {
	fields := []string{"f", "a_1", "été"}
	// the same text twice in one query, first bare (where it is a number, a pattern, an escaped word) and then quoted (where it is
	// that text, verbatim), in both orders: what a quoted value denotes does not depend on the other operands
	for _, w := range []string{"5", "007", "-3", "2.5", "1e3", "x*", "?y", `a\:b`, "NaN", "b", "10", "0"} {
		for _, f := range fields {
			emitQ("g:"+w+" AND "+f+`:"`+w+`"`, "", "rel=C08c;w="+hx(w))
			emitQ(f+`:"`+w+`" OR g:`+w, "", "rel=C08c;w="+hx(w))
			emitQ(w+" "+f+`:"`+w+`"`, "d", "rel=C08c;w="+hx(w))
			if !strings.ContainsAny(w, `*?\`) {
				emitQ("g:["+w+" TO "+w+"] AND "+f+`:("`+w+`" OR "`+w+`")`, "", "rel=C08c;w="+hx(w))
			}
		}
	}
	// a quoted or escaped value under every short sequence of operators, next to negated, required and juxtaposed clauses: it is the
	// same plain string leaf wherever it stands (tree-only relation C08t)
	ctxs := []string{"%s", "NOT %s", "-%s", "+%s", "(%s)", "-(+%s)", "NOT (+%s)", "+(-%s)", "NOT (NOT %s)", "-(-%s)", "-(%s AND g:1)", "%s AND g:1", "g:1 OR %s", "g:1 %s", "-g:1 %s", "+g:1 %s",
		"NOT g:1 %s", "g:1 OR -g:2 %s", "(%s OR g:1) AND NOT h:2", "-(+(%s))", "NOT (-(+%s))", "%s^2", "-(+%s) OR g:1", "g:1 AND -(+%s)", "+g:1 AND -g:2 %s", "NOT (g:1 %s)"}
	for _, c := range ctxs {
		for _, w := range []string{"x y", "it's", "5", "a:b", "(p)", "w*", "AND", "x  y", "é ü"} {
			emitQ(fmt.Sprintf(c, `f:"`+w+`"`), "", "rel=C08t;w="+hx(w))
			emitQ(fmt.Sprintf(c, `"`+w+`"`), pick([]string{"", "d"}), "rel=C08t;w="+hx(w))
		}
		for _, ew := range [][2]string{{`x\ y`, "x y"}, {`a\:b`, "a:b"}, {`p\(q\)`, "p(q)"}, {`it\'s`, "it's"}, {`a\,b`, "a,b"}, {`x\ \ y`, "x  y"}} {
			emitQ(fmt.Sprintf(c, "f:"+ew[0]), "", "rel=C08t;w="+hx(ew[1]))
			emitQ(fmt.Sprintf(c, ew[0]), pick([]string{"", "d"}), "rel=C08t;w="+hx(ew[1]))
		}
	}
	for i := 0; i < n; i++ {
		w := randText(5, quoteAlphabet)
		if !utf8.ValidString(w) {
			continue
		}
		f := pick(fields)
		// quoting clause: any w without a double quote (and, for the SQL clauses, without NUL)
		emitQ(f+`:"`+w+`"`, "", "rel=C08q;f="+hx(f)+";w="+hx(w))
		// a near-duplicate follow-up: the same query with only the blanks INSIDE the quoted value changed (a later call must not
		// be answered from an earlier, almost equal one)
		if strings.Contains(w, " ") && rng.Intn(3) == 0 {
			w2 := strings.ReplaceAll(w, " ", pick([]string{"  ", "\t", " \t ", "   "}))
			emitQ(f+`:"`+w2+`"`, "", "rel=C08q;f="+hx(f)+";w="+hx(w2))
		}
		// escaping clause: non-empty w
		if w != "" {
			emitQ(f+":"+esc(w), "", "rel=C08e;f="+hx(f)+";w="+hx(w))
		}
		// the same quoted value in other positions: comparison, range bounds, value list, under a default field
		if !strings.Contains(w, `"`) {
			qw := `"` + w + `"`
			switch rng.Intn(5) {
			case 0:
				emitQ(f+":>"+qw, "", "rel=C08c;w="+hx(w))
			case 1:
				emitQ(f+":["+qw+" TO "+qw+"]", "", "rel=C08c;w="+hx(w))
			case 2:
				emitQ(f+":("+qw+" OR "+qw+")", "", "rel=C08c;w="+hx(w))
			case 3:
				emitQ(qw+" AND "+f+":<="+qw, "df", "rel=C08c;w="+hx(w))
			default:
				emitQ("NOT "+f+":{"+qw+" TO *}", "", "rel=C08c;w="+hx(w))
			}
			// next to a bound of another kind, and directly under an operator that cannot be rendered (tree only)
			switch rng.Intn(8) {
			case 0:
				emitQ(f+":["+qw+" TO 5]", "", "rel=C08c;w="+hx(w))
			case 1:
				emitQ(f+":{-2.5 TO "+qw+"}", "", "rel=C08c;w="+hx(w))
			case 2:
				emitQ(qw+"~2", pick([]string{"", "d"}), "rel=C08t;w="+hx(w))
			case 3:
				emitQ(qw+"^2 OR x", pick([]string{"", "d"}), "rel=C08t;w="+hx(w))
			case 4:
				emitQ(pick([]string{"NOT ", "+", "-"})+qw, pick([]string{"", "d"}), "rel=C08t;w="+hx(w))
			case 5:
				emitQ(f+":x "+qw, "", "rel=C08t;w="+hx(w))
			}
		}
	}
}

// ---- lexer: bytes + Next/Peek scripts ----------------------------------------------------------------

var lexAlphabet = []string{"a", "b", "Z", "_", "5", "0", " ", "\t", "\r", "\n", "\f", "\v", ":", "(", ")", "[", "]", "{", "}", "+", "-", "~", "^", ">", "<", "=",
	"*", "?", "/", `\`, `"`, "'", ".", ",", ";", "#", "$", "%", "&", "!", "|", "@", "AND", "or", "Not", "TO", "é", "日", "😀", "\u00a0", "\u2028", "٣", "Ⅷ",
	"\x80", "\xbf", "\xc0", "\xc3", "\xe0\x80", "\xed\xa0\x80", "\xf4\x90\x80\x80", "\xff", "\x00", "\xe2\x82", "\xf0\x9f"}

var lexCorpus = []string{"", " ", "a", "a b", `a\`, `a\ `, `a\ b`, `"abc`, `"abc"`, `'x y'`, `/re`, `/re/`, `/a\/b/`, `/a\`, "-", "-5", "- 5", "-a", "a-b", "--5", "-\xff", "a\x80", "(\x80)",
	"a:b #", `a:b "c`, "a:b /c", "(a OR b) %", "a\fb", "a\rAND b", "a:[1 TO 2]", "a:{* TO 5}", "+a -b", "a~2 b^3", "a\xc3", "\xc3\xa9t\xc3\xa9", "٣", "-٣", "a\u00a0b", "\"\\\"", "x\\\"y",
	"a:\"b", "a AND", "AND", "to", "a\x00b", "\x00", "a#", "#a", "a b #", "😀", "a😀b"}

func genLex(n int) {
	script := func(in string) string {
		m := len(in) + 3
		if m > 24 {
			m = 24
		}
		k := 1 + rng.Intn(m)
		b := make([]byte, k)
		for i := range b {
			if rng.Intn(3) == 0 {
				b[i] = 'P'
			} else {
				b[i] = 'N'
			}
		}
		return string(b)
	}
	for _, in := range lexCorpus {
		emitL(in, strings.Repeat("N", len(in)+3))
		emitL(in, strings.Repeat("PN", len(in)+3))
		emitL(in, script(in))
	}
	for i := 0; i < n; i++ {
		in := randText(8, lexAlphabet)
		switch rng.Intn(3) {
		case 0:
			emitL(in, strings.Repeat("N", len(in)+3))
		case 1:
			emitL(in, strings.Repeat("PN", len(in)+2))
		default:
			emitL(in, script(in))
		}
		// the same bytes through the whole pipeline (C16: a lexical error makes Parse fail; C01: no panic)
		emitQ(in, pick([]string{"", "d"}), "src=bytes")
	}
	// texts made of WORDS, some of which are related to an earlier word of the same text (the same word again, the same in another
	// letter case, quoted, a prefix, with one more character): what the lexer returns for a word must not depend on the words before it
	for i := 0; i < n/4; i++ {
		k := 2 + rng.Intn(5)
		words := []string{}
		for j := 0; j < k; j++ {
			if j > 0 && rng.Intn(2) == 0 {
				words = append(words, varyWord(words[rng.Intn(len(words))]))
				continue
			}
			switch rng.Intn(6) {
			case 0:
				words = append(words, pick(quotedWords))
			case 1:
				words = append(words, pick(intWords))
			case 2:
				words = append(words, pick([]string{"Hello", "title", "WORLD", "naïve", "body", "Straße", "AND", "or", "Not", "x_y_z", "abcd", "ABCD", "aBcD", "now/d", "a/b", "1/2", "[", "]", "TO", "{"}))
			default:
				words = append(words, pick(plainWords))
			}
		}
		sep := func() string {
			return pick([]string{" ", " ", " ", " : ", ":", " AND ", " OR ", "  ", "\t", "(", ") ", " -", " +", ", ", "% ", "'s ", "; ", " & "})
		}
		var b strings.Builder
		for j, w := range words {
			if j > 0 {
				b.WriteString(sep())
			}
			b.WriteString(w)
		}
		in := b.String()
		// blanks the lexer does not know (form feed, vertical tab, no-break space, line separator, byte order mark) before, after
		// or inside an otherwise ordinary text: a lexical error wherever they stand
		if rng.Intn(4) == 0 {
			odd := pick([]string{"\f", "\v", "\u00a0", "\u2028", "\ufeff", "\u3000", "\x85"})
			switch rng.Intn(3) {
			case 0:
				in = odd + in
			case 1:
				in = in + odd
			default:
				in = strings.Replace(in, " ", odd, 1)
			}
		}
		emitL(in, strings.Repeat("N", len(in)+3))
		if rng.Intn(2) == 0 {
			emitL(in, script(in))
		}
		emitQ(in, pick([]string{"", "d"}), "src=words")
	}
}

// ---- JSON documents ----------------------------------------------------------------------------------

var opNames = []string{"AND", "OR", "EQUALS", "LIKE", "NOT", "RANGE", "MUST", "MUST_NOT", "BOOST", "FUZZY", "LITERAL", "WILD", "REGEXP", "GREATER", "LESS", "GREATER_EQ", "LESS_EQ", "IN", "LIST",
	"and", "Equals", "", "UNDEFINED", "XOR", "RANGE ", "IN"}

func jsonLeaf() string {
	switch rng.Intn(14) {
	case 0:
		return `"a"`
	case 1:
		return `"b c"`
	case 2:
		return `""`
	case 3:
		return `"w*"`
	case 4:
		return `"/r/"`
	case 5:
		return `"/"`
	case 6:
		return `5`
	case 7:
		return `-2.5`
	case 8:
		return `1e3`
	case 9:
		return `null`
	case 10:
		return `true`
	case 11:
		return `"*"`
	case 12:
		return `9007199254740993`
	}
	if rng.Intn(10) == 0 { // strings of slashes, backslashes and wildcard characters (the leaf-kind inference looks at both ends)
		b, _ := json.Marshal(randText(4, []string{`\`, `/`, `*`, `?`, "a", `\/`, `/\`, " ", `"`}))
		return string(b)
	}
	if rng.Intn(8) == 0 { // strings that are member names of the encoding, or end like one
		return pick([]string{`"min"`, `"max"`, `"left"`, `"right"`, `"operator"`, `"inclusive"`, `"power"`, `"distance"`, `"\"min"`, `"x\"max"`, `"\"left\":"`, `"LITERAL"`, `"AND"`})
	}
	if rng.Intn(6) == 0 {
		return pick([]string{`"a\\"`, `"C:\\tmp\\"`, `"\\"`, `"a\\*"`, `"x\\\\"`, `"*\\"`})
	}
	return pick([]string{`"\u0061"`, `"é"`, `"a\"b"`, `"5"`, `"1e6"`, `"NaN"`, `[]`, `{}`, `[1,2]`, `"?"`, `1.0`, `-0`, `1E400`})
}

func keyVariant(k string) string {
	switch rng.Intn(12) {
	case 0:
		return strings.ToUpper(k)
	case 1:
		return strings.Title(k)
	case 2:
		return `\u00` + fmt.Sprintf("%02x", k[0]) + k[1:]
	case 3:
		return k + " "
	}
	return k
}

func jsonDoc(depth int) string {
	if depth == 0 || rng.Intn(3) == 0 {
		return jsonLeaf()
	}
	switch rng.Intn(10) {
	case 0: // array of documents
		n := rng.Intn(4)
		xs := []string{}
		for i := 0; i < n; i++ {
			xs = append(xs, jsonDoc(depth-1))
		}
		return "[" + strings.Join(xs, ",") + "]"
	case 1: // range boundary object
		return jsonBoundary(depth)
	}
	members := []string{}
	add := func(k, v string) { members = append(members, `"`+keyVariant(k)+`":`+v) }
	if rng.Intn(10) != 0 {
		if rng.Intn(8) == 0 {
			n := rng.Intn(4)
			xs := []string{}
			for i := 0; i < n; i++ {
				xs = append(xs, jsonDoc(depth-1))
			}
			add("left", "["+strings.Join(xs, ",")+"]")
		} else {
			add("left", jsonDoc(depth-1))
		}
	}
	if rng.Intn(12) != 0 {
		if rng.Intn(15) == 0 {
			add("operator", pick([]string{"5", "null", `["AND"]`, "true"}))
		} else {
			add("operator", `"`+pick(opNames)+`"`)
		}
	}
	if rng.Intn(3) != 0 {
		if rng.Intn(4) == 0 {
			add("right", jsonBoundary(depth))
		} else {
			add("right", jsonDoc(depth-1))
		}
	}
	if rng.Intn(8) == 0 {
		add("power", pick([]string{"2", "1.5", "0", "-1", `"2"`, "null", "1e400", "1"}))
	}
	if rng.Intn(8) == 0 {
		add("distance", pick([]string{"2", "1", "0", "-3", "2.5", `"2"`, "null", "99999999999999999999"}))
	}
	if rng.Intn(12) == 0 {
		add(pick([]string{"extra", "Left", "min", "max", "operator"}), jsonLeaf())
	}
	rng.Shuffle(len(members), func(i, j int) { members[i], members[j] = members[j], members[i] })
	sep := ","
	if rng.Intn(6) == 0 {
		sep = " ,\n "
	}
	return "{" + strings.Join(members, sep) + "}"
}

func jsonBoundary(depth int) string {
	members := []string{}
	if rng.Intn(8) != 0 {
		members = append(members, `"`+keyVariant("min")+`":`+jsonDoc(depth-1))
	}
	if rng.Intn(8) != 0 {
		members = append(members, `"`+keyVariant("max")+`":`+jsonDoc(depth-1))
	}
	if rng.Intn(3) != 0 {
		members = append(members, `"`+keyVariant("inclusive")+`":`+pick([]string{"true", "false", "null", "1", `"true"`}))
	}
	if rng.Intn(10) == 0 {
		members = append(members, `"left":`+jsonLeaf())
	}
	return "{" + strings.Join(members, ",") + "}"
}

func genJSON(n int) {
	fixed := []string{`""`, `null`, `"/"`, `{"left":"a","operator":"EQUALS","right":""}`,
		`{"left":"a","operator":"AND","right":{"min":{"LEFT":"x","operator":"RANGE","right":5},"max":1}}`,
		`{"left":"a","operator":"LIKE","right":5}`, `{"left":"a","operator":"EQUALS","right":{"min":1}}`,
		`{"left":"a","operator":"RANGE","right":{"min":1,"max":"*","inclusive":true}}`,
		`{"left":["a","b"],"operator":"LIST"}`, `{"left":"a","operator":"IN","right":{"left":[1,"x"],"operator":"LIST"}}`,
		`{"left":{"left":"a","operator":"WILD"},"operator":"LIKE","right":{"left":5,"operator":"WILD"}}`,
		`[1,2]`, `{}`, `5`, `"a"`, `{"left":"a","operator":"BOOST","power":2.5}`, `{"left":"a","operator":"FUZZY","distance":3}`,
		`{"operator":"NOT"}`, `{"left":null,"operator":"NOT"}`, `{"left":"a","operator":"RANGE","right":"x"}`, "\xff", "{", `{"left":}`}
	for _, d := range fixed {
		emitJ(d, "src=fixed")
	}
	// every JSON value shape in every operand position of every operator, one and two levels deep: which documents validate is for
	// the library to say; the ones that do must print, render and re-encode without a panic
	names := []string{"AND", "OR", "EQUALS", "LIKE", "NOT", "RANGE", "MUST", "MUST_NOT", "BOOST", "FUZZY", "LITERAL", "WILD", "REGEXP", "GREATER", "LESS", "GREATER_EQ", "LESS_EQ", "IN", "LIST"}
	shapes := []string{`"a"`, `"w*"`, `"/r/"`, `""`, `"*"`, `5`, `2.5`, `null`, `true`, `[1,2]`, `[]`, `["x","y*"]`, `{}`, `{"min":1,"max":5,"inclusive":true}`}
	for _, o := range names {
		for _, l := range shapes {
			for _, r := range shapes {
				emitJ(`{"left":`+l+`,"operator":"`+o+`","right":`+r+`}`, "src=shapes")
			}
			emitJ(`{"left":`+l+`,"operator":"`+o+`"}`, "src=shapes")
		}
		for _, i := range names {
			for _, l := range shapes {
				inner := `{"left":` + l + `,"operator":"` + i + `","right":"b"}`
				emitJ(`{"left":`+inner+`,"operator":"`+o+`","right":"c"}`, "src=shapes")
				emitJ(`{"left":"c","operator":"`+o+`","right":`+inner+`}`, "src=shapes")
			}
		}
	}
	// documents the encoder produced for generated queries, then mutated
	for i := 0; i < n/3; i++ {
		t := genTree(1+rng.Intn(3), true)
		q := join(t.words(nil), 0)
		e, err := lucene.Parse(q)
		if err != nil || e == nil {
			continue
		}
		b, err := json.Marshal(e)
		if err != nil {
			continue
		}
		emitJ(string(b), "src=encoded")
		emitJ(mutateJSON(string(b)), "src=mutated")
	}
	for i := 0; i < n; i++ {
		emitJ(jsonDoc(1+rng.Intn(3)), "src=random")
	}
	// not JSON at all
	for i := 0; i < n/20+1; i++ {
		emitJ(randText(6, lexAlphabet), "src=bytes")
	}
}

func mutateJSON(s string) string {
	reps := [][2]string{{`"left"`, `"LEFT"`}, {`"right"`, `"Right"`}, {`"min"`, `"MIN"`}, {`"max"`, `"m\u0061x"`}, {`"operator"`, `"Operator"`},
		{`"EQUALS"`, `"AND"`}, {`"RANGE"`, `"EQUALS"`}, {`"AND"`, `"RANGE"`}, {`"LIKE"`, `"EQUALS"`}, {`"LIST"`, `"AND"`}, {`"IN"`, `"LIKE"`},
		{`true`, `null`}, {`"left":`, `"left":null,"x":`}, {`,"right":`, `,"right":null,"r":`}, {`:"`, `:5,"q":"`}, {`"inclusive"`, `"Inclusive"`},
		{`"EQUALS"`, `"NOT"`}, {`"OR"`, `"LIKE"`}, {`"NOT"`, `"FUZZY"`}, {`"WILD"`, `"LITERAL"`}}
	for tries := 0; tries < 6; tries++ {
		r := reps[rng.Intn(len(reps))]
		if strings.Contains(s, r[0]) {
			idx := allIndexes(s, r[0])
			k := idx[rng.Intn(len(idx))]
			s = s[:k] + r[1] + s[k+len(r[0]):]
			if rng.Intn(2) == 0 {
				break
			}
		}
	}
	return s
}

func allIndexes(s, sub string) []int {
	out := []int{}
	for i := 0; ; {
		k := strings.Index(s[i:], sub)
		if k < 0 {
			return out
		}
		out = append(out, i+k)
		i += k + 1
	}
}

// ---- C15: custom drivers -----------------------------------------------------------------------------

func genCustom(n int) {
	for i := 0; i < n; i++ {
		t := genTree(1+rng.Intn(3), rng.Intn(3) != 0)
		q := join(t.words(func() bool { return rng.Intn(3) == 0 }), 0)
		rm, ov := []string{}, []string{}
		switch rng.Intn(4) {
		case 0:
		case 1:
			rm = append(rm, fmt.Sprint(1+rng.Intn(19)))
		case 2:
			ov = append(ov, fmt.Sprint(1+rng.Intn(19)))
		default:
			rm = append(rm, fmt.Sprint(1+rng.Intn(19)))
			ov = append(ov, fmt.Sprint(1+rng.Intn(19)))
		}
		spec := "rm=" + strings.Join(rm, ",") + ";ov=" + strings.Join(ov, ",")
		if i%5 == 0 { // the function of one operator returns the empty string
			spec += ";em=" + fmt.Sprint(1+rng.Intn(19))
		}
		if i%23 == 0 {
			spec = pick([]string{"nil=1", "empty=1"}) // a driver with no table / an empty table
		}
		emitD(q, spec, "src=custom")
		// trees that only a JSON document (or a struct literal) can build
		if i%4 == 0 {
			emitD("J:"+jsonDoc(1+rng.Intn(2)), spec, "src=customjson")
		}
		if i%16 == 0 {
			emitD("J:"+pick([]string{`{"left":"a","operator":"EQUALS","right":"b*"}`, `{"left":"a","operator":"EQUALS","right":"/r/"}`,
				`{"left":{"left":"a","operator":"EQUALS","right":"w?"},"operator":"NOT"}`, `{"left":"a","operator":"LIKE","right":"b*"}`,
				`{"left":"a","operator":"IN","right":{"left":["x","y"],"operator":"LIST"}}`,
				`{"left":"a","operator":"IN","right":{"left":["x","y*"],"operator":"LIST"}}`, `{"left":"a","operator":"IN","right":{"left":["y*","x"],"operator":"LIST"}}`,
				`{"left":"a","operator":"IN","right":{"left":["x","/r/","z?"],"operator":"LIST"}}`, `{"left":"a","operator":"IN","right":{"left":[1,"x",2.5,"w*"],"operator":"LIST"}}`}), spec, "src=customjson")
			// the same with the three leaf operators treated differently
			for _, sp := range []string{"rm=;ov=12", "rm=12;ov=", "rm=;ov=11", "rm=13;ov=12", "rm=;ov=;em=12"} {
				if rng.Intn(3) == 0 {
					emitD("J:"+pick([]string{`{"left":"a","operator":"IN","right":{"left":["x","y*"],"operator":"LIST"}}`, `{"left":"a","operator":"IN","right":{"left":["y*","x","/r/"],"operator":"LIST"}}`}), sp, "src=customjson")
				}
			}
		}
	}
}

// ---- C01: adversarial sizes ----------------------------------------------------------------------------

func genBig(thorough bool) {
	n := 300
	if thorough {
		n = 2500
	}
	rep := func(s string, k int) string { return strings.Repeat(s, k) }
	shapes := map[string]string{
		"nest-paren":    rep("(", n) + "a:b" + rep(")", n),
		"open-paren":    rep("(", n) + "a:b",
		"close-paren":   "a:b" + rep(")", n),
		"and-chain":     "a:b" + rep(" AND a:b", n),
		"or-chain":      "a:b" + rep(" OR c:d", n),
		"juxt-chain":    "a:b" + rep(" c:d", n),
		"not-chain":     rep("NOT ", n) + "a:b",
		"plus-chain":    rep("+", n) + "a:b",
		"minus-chain":   rep("-", n) + "a:b",
		"plus-chain-64": rep("+", 64) + "a:b",
		"minus-par-64":  "(" + rep("-", 64) + "a:b",
		"tilde-chain":   "a" + rep("~", n),
		"caret-chain":   "a" + rep("^2", n),
		"ops-only":      rep("AND OR NOT ", n),
		"colons":        rep(":", n),
		"brackets":      rep("[", n) + rep("]", n),
		"value-list":    "a:(" + "x" + rep(" OR x", n) + ")",
		"mixed-nest":    rep("(NOT +", n/2) + "a:b" + rep(")", n/2),
		"quotes":        rep(`"a" `, n),
		"long-word":     rep("a", 20*n),
		"long-quoted":   `f:"` + rep("x y ", 5*n) + `"`,
		"bad-utf8":      rep("\xff", n),
		"backslashes":   rep(`\`, n),
	}
	for _, k := range sortedKeys(mapLen(shapes)) {
		emitQ(shapes[k], "", "src=big;shape="+k)
		emitQ(shapes[k], "d", "src=big;shape="+k)
	}
}

func mapLen(m map[string]string) map[string]int {
	r := map[string]int{}
	for k, v := range m {
		r[k] = len(v)
	}
	return r
}

// ---- fixed corpus: witnesses of repaired defects and of the known findings, always run first -------------

var corpusQueries = []string{
	`""`, `a:*`, `a:(1 OR 2)`, `NOT a:b c:d`, `a:b c:d e:f`, `(() NOT a)`, `a~+5`, `a~-5`, `a^+5`, `a^Inf`, `a:[b:c TO 5]`, `f:[a b TO c]`,
	`a:NaN`, `a:Inf`, `a:[1.5 TO *]`, `w*`, `/re/`, `+x`, `-x`, `x~`, `x^2`, `"*"`, `a:(x OR y)`, `NOT NOT a`, `++a`, `--a`, `a:/b/`,
	`a:[9007199254740993 TO *]`, `r:{a TO c}`, `r:{5 TO a}`, `r:[a TO *]`, `r:[* TO c]`, `r:[0.125 TO 0.5]`, `r:[* TO *]`, `r:["a,b" TO c]`,
	`a:"*"`, `r:{"*" TO c}`, `b\*`, `a\\b`, `a:([1 TO 2])`, `a:[1 TO 2]`, `f:a_b*`, `a:1e6`, `a:-0.0`, `5:[1 TO 2]`, `5:{1 TO 2}`, `1.5:[1 TO 2]`,
	`a\`, `a\ `, `a~(2)`, `a:b OR c:d AND e:f`, `NOT a AND b`, `+a^2`, `-a:b c:d`, `a:[1 TO 2}`, `a:[1 TO 2)`, `a:[1 UNTIL 2]`, `a* AND b`, `NOT /x/`,
}

func genCorpus() {
	emitQ(strings.Repeat("n", 70)+":1", "", "src=corpus")
	emitQ("f:b\\*", "", "rel=C08e;f=66;w=622a")
	emitQ("a\\", "", "rel=C09ws;g=0;role=a")
	emitQ("a\\ ", "", "rel=C09ws;g=0;role=b")
	emitQ(`a:"*"`, "", "rel=C08q;f=61;w=2a")
	emitQ("NOT a b", "", "rel=C09par;g=1;role=a")
	emitQ("NOT (a) b", "", "rel=C09par;g=1;role=b")
	for _, q := range corpusQueries {
		for _, df := range []string{"", "d"} {
			emitQ(q, df, "src=corpus")
		}
	}
}

// ---- C02: hostile field names and values -------------------------------------------------------------------

var hostile = []string{`"`, `'`, `''`, `;`, `--`, `/*`, `*/`, `)`, `(`, ` OR `, ` = `, `"a" OR "b`, `' OR '1'='1`, `\`, "\x00", "\xff", "\xc3", `$1`, `?`, `%`, `_`, `E'x'`, `U&"d"`,
	`$$`, "\n", "\t", `a`, `b1`, `é`, `NaN`, `Inf`, `1e6`, `::int`, `pg_sleep(1)`, `0x10`, `1_000`, `--c\n`, `/* c */`, `x y`, `,`, `[`, `]`, `{`, `}`, `TO`, `AND`}

func hostileText(parts int) string {
	n := 1 + rng.Intn(parts)
	var sb strings.Builder
	for i := 0; i < n; i++ {
		sb.WriteString(pick(hostile))
	}
	return sb.String()
}

func escAll(w string) string { // backslash before every byte-level special, so that any text becomes one word
	var sb strings.Builder
	for _, r := range w {
		if isSpecial(r) || r == utf8.RuneError {
			sb.WriteByte('\\')
		}
		sb.WriteRune(r)
	}
	s := sb.String()
	switch strings.ToUpper(s) {
	case "AND", "OR", "NOT", "TO":
		return `\` + s
	}
	return s
}

func genInject(n int) {
	long := strings.Repeat("n", 70)
	emitQ(long+":1", "", "src=inject")
	emitQ("a:1", long, "src=inject")
	for i := 0; i < n; i++ {
		f := hostileText(3)
		v := hostileText(3)
		if !utf8.ValidString(f) {
			f = strings.ToValidUTF8(f, "")
		}
		if f == "" {
			f = "f"
		}
		fw := escAll(f)
		var vw string
		if strings.Contains(v, `"`) || rng.Intn(3) == 0 {
			vw = escAll(strings.ToValidUTF8(v, "?"))
			if vw == "" {
				vw = "v"
			}
		} else {
			vw = `"` + v + `"`
		}
		df := ""
		if rng.Intn(3) == 0 {
			df = hostileText(2)
		}
		var q string
		switch rng.Intn(8) {
		case 0:
			q = fw + ":" + vw
		case 1:
			q = fw + ":>" + vw
		case 2:
			q = fw + ":[" + vw + " TO " + vw + "]"
		case 3:
			q = fw + ":(" + vw + " OR " + vw + ")"
		case 4:
			q = vw + " AND NOT " + fw + ":" + vw
		case 5:
			if rng.Intn(2) == 0 {
				q = fw + ":[1 TO 5]"
			} else {
				q = fw + ":{* TO " + vw + "}"
			}
		case 6:
			q = "-" + fw + ":" + vw + "* OR " + fw + ":/" + strings.ReplaceAll(strings.ToValidUTF8(v, ""), "/", "") + "/"
		default:
			q = vw
		}
		emitQ(q, df, "src=inject")
	}
}

// ---- C03: trees of the filterable fragment ---------------------------------------------------------------------
// field-scoped equality, comparisons, ranges (bounds of one type, every bound kind x inclusivity), value lists, wildcard
// patterns, combined with AND, OR, NOT, +, - and parentheses. Each field keeps one type (number or string) in a query.

var semNumFields = []string{"n", "qty", "n2"}
var semStrFields = []string{"s", "name", "t_1"}
var semInts = []string{"5", "-3", "0", "42", "007", "100", "9223372036854775807", "-9223372036854775808", "8", "16"}
var semDecs = []string{"2.5", "0.5", "0.125", "-7.25", "1.5", "100.25", "3.0", "1e3", "0.75"}
var semStrs = []string{"b", "foo", "bar9", `"q r"`, `"it's"`, `"a,b"`, `""`, `"x y z"`, "été", `"Z"`, "a.b", `"(p)"`, `"5"`, `"o'k, then"`, `"%"`, `"under_score"`}
var semPats = []string{"w*", "?x", "a*b?c", "f*o", "*a", "?", "b*", "*n*", "ab?d*", "a_b*", "x%*", `b\\*`, `x\*y*`, `q\?*`}

func semStr() string {
	if rng.Intn(3) == 0 {
		return composedQuoted()
	}
	return pick(semStrs)
}

func semNum() string {
	if rng.Intn(3) == 0 {
		return pick(semDecs)
	}
	return pick(semInts)
}

func semLeaf() *qt {
	if rng.Intn(2) == 0 {
		f := pick(semNumFields)
		switch rng.Intn(8) {
		case 0, 1:
			return &qt{kind: "fv", toks: []string{f, ":", semNum()}}
		case 2:
			return &qt{kind: "cmp", toks: []string{f, ":", pick([]string{">", "<"}), "", semNum()}}
		case 3:
			return &qt{kind: "cmp", toks: []string{f, ":", pick([]string{">", "<"}), "=", semNum()}}
		case 4, 5:
			lo, hi := semNum(), semNum()
			if rng.Intn(2) == 0 { // same type for both bounds
				lo, hi = pick(semInts), pick(semInts)
			}
			if rng.Intn(5) == 0 {
				lo = "*"
			} else if rng.Intn(5) == 0 {
				hi = "*"
			}
			if rng.Intn(2) == 0 {
				return &qt{kind: "range", toks: []string{f, ":", "[", lo, "TO", hi, "]"}}
			}
			return &qt{kind: "range", toks: []string{f, ":", "{", lo, "TO", hi, "}"}}
		default:
			n := 2 + rng.Intn(3)
			var v *qt = &qt{kind: "term", toks: []string{semNum()}}
			for i := 1; i < n; i++ {
				v = mk("or", v, &qt{kind: "term", toks: []string{semNum()}})
			}
			return &qt{kind: "fe", toks: []string{f, ":"}, kids: []*qt{v}}
		}
	}
	f := pick(semStrFields)
	switch rng.Intn(9) {
	case 0, 1:
		return &qt{kind: "fv", toks: []string{f, ":", semStr()}}
	case 2, 3:
		if rng.Intn(3) == 0 {
			return &qt{kind: "fv", toks: []string{f, ":", composedPattern()}}
		}
		return &qt{kind: "fv", toks: []string{f, ":", pick(semPats)}}
	case 4:
		return &qt{kind: "cmp", toks: []string{f, ":", pick([]string{">", "<"}), pick([]string{"", "="}), pick(semStrs)}}
	case 5, 6:
		lo, hi := pick(semStrs), pick(semStrs)
		if rng.Intn(5) == 0 {
			lo = "*"
		} else if rng.Intn(5) == 0 {
			hi = "*"
		} else if rng.Intn(20) == 0 {
			lo, hi = "*", "*"
		}
		if rng.Intn(2) == 0 {
			return &qt{kind: "range", toks: []string{f, ":", "[", lo, "TO", hi, "]"}}
		}
		return &qt{kind: "range", toks: []string{f, ":", "{", lo, "TO", hi, "}"}}
	default:
		n := 2 + rng.Intn(3)
		var v *qt = &qt{kind: "term", toks: []string{semStr()}}
		for i := 1; i < n; i++ {
			if rng.Intn(5) == 0 {
				v = mk("or", v, &qt{kind: "term", toks: []string{v.lastTerm()}}) // a repeated value
				continue
			}
			v = mk("or", v, &qt{kind: "term", toks: []string{semStr()}})
		}
		return &qt{kind: "fe", toks: []string{f, ":"}, kids: []*qt{v}}
	}
}

func semTree(depth int) *qt {
	if depth == 0 || rng.Intn(4) == 0 {
		return semLeaf()
	}
	switch rng.Intn(10) {
	case 0, 1, 2:
		l := semTree(depth - 1)
		if rng.Intn(5) == 0 {
			return mk("and", l, variant(l))
		}
		return mk("and", l, semTree(depth-1))
	case 3, 4, 5:
		l := semTree(depth - 1)
		if rng.Intn(5) == 0 {
			return mk("or", l, variant(l))
		}
		return mk("or", l, semTree(depth-1))
	case 6:
		return mk("not", semTree(depth-1))
	case 7:
		return mk("must", semTree(depth-1))
	case 8:
		return mk("mustnot", semTree(depth-1))
	}
	return par(semTree(depth - 1))
}

func genSem(n int) {
	for i := 0; i < n; i++ {
		newPalette()
		t := semTree(rng.Intn(4))
		if rng.Intn(4) == 0 {
			t = addPars(t, 0.2)
		}
		q := join(t.words(func() bool { return rng.Intn(4) == 0 }), rng.Intn(2))
		emitQ(q, "", "src=sem")
		if rng.Intn(8) == 0 {
			if v := nearDup(q); v != "" {
				emitQ(v, "", "src=sem")
			}
		}
	}
}

// ---- near misses: every single-token substitution, insertion and deletion of every small query form ------------------

var nearForms = [][]string{
	{"a", ":", "b"}, {"a", "=", "5"}, {"a", ":", ">", "5"}, {"a", ":", "<", "=", "5"}, {"a", ":", "[", "1", "TO", "5", "]"}, {"a", ":", "{", "b", "TO", "*", "}"},
	{"a", ":", "(", "x", "OR", "y", ")"}, {"a", "AND", "b"}, {"a", "OR", "b", "AND", "c"}, {"NOT", "a"}, {"+", "a", "-", "b"}, {"a", "~", "2"}, {"a", "^", "2.5"},
	{"(", "a", ")"}, {"a", "OR", "b"}, {"x", "OR", "y", "OR", "z"}, {`"q"`, "OR", "5"}, {"a", ":", "b", "c", ":", "d"}, {"b", ":", "c", ":", "d"}, {"x", ":", "[", "1", "~", "TO", "2", "]"}, {"(", "b", "OR", "c", ")", ":", "d"}, {"a", ":", "w*"}, {"a", ":", `"q r"`}, {"a", ":", "/r/"}, {"a", "~"}, {"(", "a", "OR", "b", ")", "^", "2"},
}

func genNearMiss() {
	k := 0
	g := 900000 // group numbers of the layout pairs, apart from those of the layout generator
	emit := func(w []string) {
		q := strings.Join(w, " ")
		emitQ(q, "", "src=nearmiss")
		emitQ(q, "d", "src=nearmiss")
		// what is no query stays none under every layout: spaced against tight, and with the group under a field doubled
		nearMissLayout(w, &g)
		emitQ("f : ( "+q+" )", "", fmt.Sprintf("rel=C09par;g=%d;role=a", g))
		emitQ("f : ( ( "+q+" ) )", "", fmt.Sprintf("rel=C09par;g=%d;role=b", g))
		g++
		// the same text as an operand: what is not a query on its own is not one inside a group, under a field or an operator either
		k++
		switch k % 8 {
		case 0:
			emitQ("f : ( "+q+" )", "", "src=nearmiss-embedded")
		case 2:
			emitQ("NOT ( "+q+" )", "d", "src=nearmiss-embedded")
		case 4:
			emitQ("f : > ( "+q+" )", "", "src=nearmiss-embedded")
		case 6:
			emitQ("( "+q+" ) OR z", "", "src=nearmiss-embedded")
		}
	}
	// almost value lists: one element of a parenthesised OR chain under a field is not a plain value
	specials := [][]string{{"b", "~"}, {"b", "~", "2"}, {"b", "^", "2"}, {"w*"}, {"/r/"}, {"k", ":", "v"}, {"k", ":", "[", "1", "TO", "2", "]"}, {"NOT", "b"}, {"+", "b"}, {"-", "b"},
		{"(", "b", ")"}, {"(", "b", "OR", "c", ")"}, {`"q"`}, {"5"}, {"x"}}
	for n := 2; n <= 4; n++ {
		for i := 0; i < n; i++ {
			for _, sp := range specials {
				w := []string{"a", ":", "("}
				for j := 0; j < n; j++ {
					if j > 0 {
						w = append(w, "OR")
					}
					if j == i {
						w = append(w, sp...)
					} else {
						w = append(w, pick([]string{"x", "y", "7", `"z z"`}))
					}
				}
				emit(append(w, ")"))
			}
		}
	}
	for _, f := range nearForms {
		emit(f)
		q0 := strings.Join(f, " ")
		for _, wrap := range []string{"f : ( %s )", "NOT ( %s )", "f : > ( %s )", "f : < = ( %s )", "( %s ) OR z", "f : [ 1 TO ( %s ) ]", "- ( %s ) ^ 2"} {
			emitQ(fmt.Sprintf(wrap, q0), "", "src=nearmiss-embedded")
			emitQ(fmt.Sprintf(wrap, q0), "d", "src=nearmiss-embedded")
		}
		for i := 0; i <= len(f); i++ {
			for _, s := range enumAlphabet {
				ins := append(append(append([]string{}, f[:i]...), s), f[i:]...)
				emit(ins)
				if i < len(f) {
					sub := append([]string{}, f...)
					sub[i] = s
					emit(sub)
				}
			}
			if i < len(f) {
				del := append(append([]string{}, f[:i]...), f[i+1:]...)
				if len(del) > 0 {
					emit(del)
				}
			}
		}
	}
}
