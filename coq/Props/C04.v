(* C04 — Parameterized SQL agrees with inline SQL; all values travel as parameters.  (clause (a): placeholder count) *)
Require Import Parser Render Api Shape Count.
Require Import ParserShape2 RenderCount RenderCountP RenderParamTotal RenderTotal RenderValues Values SameKind RenderShape.
Require PgModel.
Require Import QuerySem SqlSem SqlFrag SqlFragP.
Require SqlParse SqlParseP SqlSemProof SqlSemProofP SqlProvenanceP SqlLexP SqlEndToEndP SqlQueryTextP.
Require Api Lex LexWs Printer PrintedText.
Require LexWsG.
From Coq Require Import ZArith List String Ascii Lia.
Import ListNotations.

(* (a) on every tree of the parser's output shape whose range fields are columns (rfield_ok; a numeric field term in a closed
   range is known finding K13): the number of ? outside double-quoted identifiers equals the number of parameters.
   Oracle fact used: strconv.ParseFloat rejects a text that starts with a quote. *)
Theorem C04_placeholders_match_parameters : forall o2 : oracle2,
  (forall (q : ascii) (r : string), q = "'"%char \/ q = dq -> pfloat o2 (String q r) = None) ->
  forall (e : expr) (t : string) (ps : list value),
  wf true e = true -> rfield_ok e = true -> render_param o2 e = Ret (t, ps, None) -> qcnt false t = List.length ps.
Proof. exact C04_count. Qed.

(* whenever Parse succeeded, RenderParam returns (never panics) *)
Theorem C04_render_param_returns : forall (o2 : oracle2) (e : expr), wf true e = true -> is_ret (render_param o2 e).
Proof. exact render_param_total. Qed.

(* (b) the parameters are the query's values (Spec/Values.v: columns are not values, an unbounded range end is not a value,
   a pattern matched with LIKE travels translated unless it is a /regexp/) in left-to-right order with their Go kinds,
   on every tree of the parser's output shape *)
Theorem C04_parameters_are_the_values : forall (o2 : oracle2) (e : expr) (t : string) (ps : list value),
  wf true e = true -> render_param o2 e = Ret (t, ps, None) -> ps = vals_e e.
Proof. exact render_param_values. Qed.

(* (d) the SQL text does not depend on the values: two trees that differ only in leaf values of the same kind (Spec/SameKind.v:
   same operators and columns, integer for integer, float for float, string for string with the same being-the-lone-star and
   the same being-a-/regexp/) render the same parameterized text; the parameter lists then agree kind by kind (pk).
   For every tree, of any shape. *)
Theorem C04_sql_text_independent_of_values : forall (o2 : oracle2) (e e' : expr) (t : string) (ps : list value),
  sk_e e e' = true -> render_param o2 e = Ret (t, ps, None) ->
  exists ps', render_param o2 e' = Ret (t, ps', None) /\ Forall2 pk ps ps'.
Proof. exact same_kind_same_text. Qed.

(* (c) substituting the parameters gives a predicate equivalent to the inline SQL - for every tree of the filterable fragment
   (Spec/SqlFrag.tr for the inline text, Spec/SqlFragP.trp for the parameterized one: integer and string constants, any depth)
   and every row. trp e 1 = Some (ts2, a2, ps): ts2 is the token sequence of the parameterized text with its placeholders
   numbered from 1 (tied per case to the implementation: the scanner model on the numbered text gives ts2, correspondence
   SqlToksP), ps the parameter list. PostgreSQL's grammar reads a2 from ts2, and a2 with ps bound is true on exactly the rows of
   the query; the inline expression a1 is too (C03), so the two are equivalent. *)
Theorem C04_parameterized_sql_selects_the_rows_of_the_query :
  forall (r : row) (e : Parser.expr) (ts2 : list PgModel.tok) (a2 : PgModel.ast) (ps : list value),
  trp e 1 = Some (ts2, a2, ps) -> side e = true -> (Z.of_nat (1 + List.length ps) < 10 ^ 30)%Z ->
  PgModel.pg_parse ts2 = Some a2 /\ ssem r (map prv ps) a2 = qsem r e.
Proof.
  intros r e ts2 a2 ps T S B. split; [exact (SqlParseP.trp_parses e 1 ts2 a2 ps T)|exact (SqlSemProofP.trp_sem r e ts2 a2 ps T S B)].
Qed.

Theorem C04_substituted_parameters_equivalent_to_inline :
  forall (r : row) (e : Parser.expr) (ts1 ts2 : list PgModel.tok) (a1 a2 : PgModel.ast) (ps : list value),
  tr e = Some (ts1, a1) -> trp e 1 = Some (ts2, a2, ps) -> side e = true -> (Z.of_nat (1 + List.length ps) < 10 ^ 30)%Z ->
  ssem r (map prv ps) a2 = ssem r [] a1.
Proof.
  intros r e ts1 ts2 a1 a2 ps T1 T2 S B.
  rewrite (SqlSemProofP.trp_sem r e ts2 a2 ps T2 S B), (SqlSemProof.tr_sem r [] e ts1 a1 T1 S). reflexivity.
Qed.

(* ... end to end on the model's parameterized renderer: whenever RenderParam returns (s, ps') for a tree of the fragment, ps' is
   the parameter list of trp, PostgreSQL's scanner and grammar models read from s - its placeholders numbered $1, $2, ... by
   SqlFragP.number_placeholders, as a client library does - exactly the expression a2, and a2 with ps' bound is true on exactly the
   rows of the query (names of at most 63 bytes; fewer than 10^9 parameters, the scanner's limit on the digits of a placeholder) *)
Theorem C04_parameterized_text_read_by_postgres :
  forall (o2 : oracle2) (r : row) (e : Parser.expr) (ts2 : list PgModel.tok) (a2 : PgModel.ast) (ps ps' : list value) (s : string),
  trp e 1 = Some (ts2, a2, ps) -> side e = true -> names_ok e = true -> (Z.of_nat (1 + SqlLexP.pcount e) < 1000000000)%Z ->
  render_param o2 e = Ret (s, ps', None) ->
  ps' = ps /\ PgModel.pg_read (number_placeholders (PgModel.str s)) = Some a2 /\ ssem r (map prv ps') a2 = qsem r e.
Proof.
  intros o2 r e ts2 a2 ps ps' s T S Nm Hk R. destruct (SqlEndToEndP.render_param_reads o2 e ts2 a2 ps s ps' T Nm Hk R) as [Ep Rd].
  split; [exact Ep|]. split; [exact Rd|]. subst ps'. apply (SqlSemProofP.trp_sem r e ts2 a2 ps T S).
  rewrite (SqlLexP.trp_pcount_sz _ e (le_n _) 1 ts2 a2 ps T). lia.
Qed.

(* all values travel as parameters: the parameterized expression holds no string constant and no numeric constant at all, and its
   placeholders are exactly $1 ... $n in order, one per parameter *)
Theorem C04_all_values_travel_as_parameters : forall (e : Parser.expr) (ts2 : list PgModel.tok) (a2 : PgModel.ast) (ps : list value),
  trp e 1 = Some (ts2, a2, ps) ->
  SqlProvenanceP.consts_of a2 = [] /\ SqlProvenanceP.params_of a2 = SqlProvenanceP.pnums 1 (List.length ps).
Proof. exact SqlProvenanceP.trp_no_constants. Qed.

(* and from the query TEXT: a query printed from a specification tree (C05) whose parse is in the fragment *)
Theorem C04_query_text_to_parameterized_rows :
  forall (o : oracle) (o2 : oracle2) (cl : Lex.classes),
  (forall r, Lex.is_space r = true -> Lex.is_alnum cl r = false) ->
  forall (t : Printer.qt) (ts : list PgModel.tok) (a : PgModel.ast) (ps ps' : list value) (s : string),
  Printer.wfq o t -> Forall (LexWsG.lexes_clean cl) (map PrintedText.ltok (Printer.pr t)) ->
  trp (Printer.want o t) 1 = Some (ts, a, ps) ->
  side (Printer.want o t) = true -> names_ok (Printer.want o t) = true -> (Z.of_nat (1 + SqlLexP.pcount (Printer.want o t)) < 1000000000)%Z ->
  Api.to_param_postgres o o2 cl "" (PrintedText.text_of (Printer.pr t)) = Ret (s, ps', None) ->
  ps' = ps /\ PgModel.pg_read (number_placeholders (PgModel.str s)) = Some a /\ forall r : row, ssem r (map prv ps') a = qsem r (Printer.want o t).
Proof. exact SqlQueryTextP.to_param_postgres_on_printed_fragment_query. Qed.

(* the premises are met: a range AND NOT a pattern, OR a value list *)
Definition c04_lit (v : value) : Parser.expr := E v Literal VNil 0%Z 0%Z.
Definition c04_col (f : string) : value := VExp (c04_lit (VCol f)).
Definition c04_sample : Parser.expr :=
  E (VExp (E (VExp (E (c04_col "n") Range (VBound (VExp (c04_lit (VInt 1))) (VExp (c04_lit (VInt 5))) true) 0%Z 0%Z)) And
             (VExp (E (VExp (E (c04_col "s") Like (VExp (E (VStr "w*") Wild VNil 0%Z 0%Z)) 0%Z 0%Z)) Not VNil 0%Z 0%Z)) 0%Z 0%Z)) Or
    (VExp (E (c04_col "k") Tables.In (VExp (E (VList [c04_lit (VInt 3); c04_lit (VStr "x y")]) Tables.List VNil 0%Z 0%Z)) 0%Z 0%Z)) 0%Z 0%Z.
Example C04_premises_are_satisfiable :
  side c04_sample = true /\ (exists ts a, tr c04_sample = Some (ts, a)) /\
  exists ts a, trp c04_sample 1 = Some (ts, a, [VInt 1; VInt 5; VStr "w%"; VInt 3; VStr "x y"]).
Proof. split; [vm_compute; reflexivity|]. split; eexists; eexists; vm_compute; reflexivity. Qed.

Print Assumptions C04_placeholders_match_parameters.
Print Assumptions C04_parameterized_sql_selects_the_rows_of_the_query.
Print Assumptions C04_substituted_parameters_equivalent_to_inline.
Print Assumptions C04_parameterized_text_read_by_postgres.
Print Assumptions C04_all_values_travel_as_parameters.
Print Assumptions C04_query_text_to_parameterized_rows.
Print Assumptions C04_sql_text_independent_of_values.
Print Assumptions C04_parameters_are_the_values.
Print Assumptions C04_render_param_returns.
