(* C04: the TEXT and the parameter list the parameterized renderer returns for a tree of the fragment: the text is
   Proofs/SqlNumber.ptxt (placeholders as ?), the parameters are the ones Spec/SqlFragP.trp lists. *)
Require Import Parser ParserShape Render RenderStr RenderStr2 RenderCount RenderCountP RenderParamTotal RenderNum RenderEmpty RenderInline RenderShape.
Require Import PgModel QuerySem SqlSem SqlFrag SqlFragP.
Require PgQuote.
Require Import Decimal SqlLex SqlSemProof SqlText SqlParseP SqlLexP SqlNumber.
From Coq Require Import List Ascii String ZArith Bool Lia Arith.
Import ListNotations.
Open Scope string_scope.

Ltac norm_str := repeat (rewrite str_cons || rewrite str_app || rewrite str_nil); cbn [app]; repeat (rewrite <- app_assoc; cbn [app]).
Ltac fin := unfold dqs, sqs, bdq, bsq, qm; norm_str; rewrite ?str_double, ?str_zs; norm_str; reflexivity.

Section T.
Variable o2 : oracle2.

Lemma rp_inv l op r b fz s ps : render_param o2 (E l op r b fz) = Ret (s, ps, None) ->
  exists lf lp rt rp, ser_param o2 l = Ret (lf, lp, None) /\ ser_param o2 r = Ret (rt, rp, None) /\ rp_node o2 l op r lf lp rt rp = Ret (s, ps, None).
Proof.
  intros H. rewrite render_param_eq in H.
  destruct (ser_param o2 l) as [[[lf lp] [el|]]|]; cbn [bind] in H; try discriminate H.
  destruct (ser_param o2 r) as [[[rt rp] [er|]]|]; cbn [bind] in H; try discriminate H.
  exists lf, lp, rt, rp. auto.
Qed.

(* a node whose operator is not LIKE or RANGE *)
Lemma rp_node_plain l op r lf lp rt rp s ps fn : op <> Like -> op <> Range -> pg_fn o2 op = Some fn ->
  rp_node o2 l op r lf lp rt rp = Ret (s, ps, None) ->
  fn (wrap_if (negb (no_wrap_op op) && negb (is_simple l)) lf) (wrap_if (negb (no_wrap_op op) && negb (is_simple r)) rt) = Ret (s, None) /\ ps = (lp ++ rp)%list.
Proof.
  intros H1 H2 Hf H. unfold rp_node in H.
  assert (X : match pg_fn o2 op with None => Ret (""%string, (lp ++ rp)%list, Some "unable to render operator"%string)
              | Some fn => bind (fn (wrap_if (negb (no_wrap_op op) && negb (is_simple l)) lf) (wrap_if (negb (no_wrap_op op) && negb (is_simple r)) rt)) (fun x => Ret (fst x, (lp ++ rp)%list, snd x)) end = Ret (s, ps, None)).
  { destruct op; try congruence; exact H. }
  rewrite Hf in X. destruct (fn _ _) as [[t [er|]]|]; cbn [bind fst snd] in X; try discriminate X. inversion X; subst. split; reflexivity.
Qed.

(* leaves *)
Lemma rparam_col f b fz s ps : render_param o2 (E (VCol f) Literal VNil b fz) = Ret (s, ps, None) -> s = dqs f /\ ps = [].
Proof.
  intros H. destruct (rp_inv _ _ _ _ _ _ _ H) as [lf [lp [rt [rp [Hl [Hr Hn]]]]]].
  cbn [ser_param] in Hl, Hr. inversion Hr; subst rt rp.
  destruct (rp_node_plain _ Literal _ _ _ _ _ _ _ _ ltac:(discriminate) ltac:(discriminate) eq_refl Hn) as [Hs Hp].
  cbn [no_wrap_op negb andb wrap_if] in Hs. inversion Hs as [Hs']. apply fn_literal_inv in Hs'.
  unfold ser_column in Hl. destruct (String.eqb f ""); [discriminate|]. destruct (contains_char _ f); [discriminate|]. inversion Hl; subst. split; [reflexivity|reflexivity].
Qed.

Lemma rparam_const lf v s ps : const_param lf = Some v -> render_param o2 lf = Ret (s, ps, None) -> s = "?" /\ ps = [v].
Proof.
  destruct lf as [l op rt b fz]. destruct l; try discriminate; destruct op; try discriminate; destruct rt; try discriminate; cbn [const_param]; intros C H.
  - inversion C; subst. destruct (rp_inv _ _ _ _ _ _ _ H) as [lf [lp [rt [rp [Hl [Hr Hn]]]]]]. cbn [ser_param] in Hl, Hr. inversion Hl; subst. inversion Hr; subst.
    destruct (rp_node_plain _ Literal _ _ _ _ _ _ _ _ ltac:(discriminate) ltac:(discriminate) eq_refl Hn) as [Hs Hp].
    cbn [no_wrap_op negb andb wrap_if] in Hs. inversion Hs as [Hs']. apply fn_literal_inv in Hs'. subst. split; reflexivity.
  - destruct (String.eqb s0 "*") eqn:E; [discriminate|]. inversion C; subst.
    destruct (rp_inv _ _ _ _ _ _ _ H) as [lf [lp [rt [rp [Hl [Hr Hn]]]]]]. cbn [ser_param] in Hl, Hr. rewrite E in Hl. inversion Hl; subst. inversion Hr; subst.
    destruct (rp_node_plain _ Literal _ _ _ _ _ _ _ _ ltac:(discriminate) ltac:(discriminate) eq_refl Hn) as [Hs Hp].
    cbn [no_wrap_op negb andb wrap_if] in Hs. inversion Hs as [Hs']. apply fn_literal_inv in Hs'. subst. split; reflexivity.
Qed.

Lemma rparam_wild p b fz s ps : render_param o2 (E (VStr p) Wild VNil b fz) = Ret (s, ps, None) ->
  (p = "*" /\ s = "'*'" /\ ps = []) \/ (String.eqb p "*" = false /\ s = "?" /\ ps = [VStr p]).
Proof.
  intros H. destruct (rp_inv _ _ _ _ _ _ _ H) as [lf [lp [rt [rp [Hl [Hr Hn]]]]]]. cbn [ser_param] in Hl, Hr. inversion Hr; subst rt rp.
  destruct (rp_node_plain _ Wild _ _ _ _ _ _ _ _ ltac:(discriminate) ltac:(discriminate) eq_refl Hn) as [Hs Hp].
  cbn [no_wrap_op negb andb wrap_if] in Hs. inversion Hs as [Hs']. apply fn_literal_inv in Hs'.
  destruct (String.eqb p "*") eqn:E.
  - apply String.eqb_eq in E. inversion Hl; subst. left. auto.
  - inversion Hl; subst. right. auto.
Qed.

(* value lists *)
Lemma serp_list_inv2 : forall l vs acc ps0 s ps, consts_param l = Some vs -> serp_list o2 l acc ps0 = Ret (s, ps, None) ->
  s = join ", " (rev acc ++ repeat "?" (List.length l)) /\ ps = (ps0 ++ vs)%list.
Proof.
  induction l as [|x l IH]; intros vs acc ps0 s ps C H; cbn [consts_param] in C; cbn [serp_list] in H.
  - inversion C; subst. inversion H; subst. cbn [List.length repeat]. rewrite !app_nil_r. split; reflexivity.
  - destruct (const_param x) as [v|] eqn:Cx; [|discriminate]. destruct (consts_param l) as [vs'|] eqn:Cl; [|discriminate]. inversion C; subst; clear C.
    destruct (render_param o2 x) as [[[t tp] [er|]]|] eqn:R; cbn [bind] in H; try discriminate H.
    destruct (rparam_const x v t tp Cx R) as [-> ->].
    destruct (IH vs' ("?" :: acc) (ps0 ++ [v])%list s ps eq_refl H) as [Es Ep]. split.
    + rewrite Es. cbn [rev List.length repeat]. rewrite <- app_assoc. reflexivity.
    + rewrite Ep, <- app_assoc. reflexivity.
Qed.
Lemma str_join_qms : forall n, str (join ", " (repeat "?" (S n))) = qms (S n).
Proof.
  induction n as [|n IH]; [reflexivity|].
  change (repeat "?" (S (S n))) with ("?" :: repeat "?" (S n)). change (join ", " ("?" :: repeat "?" (S n))) with ("?" ++ ", " ++ join ", " (repeat "?" (S n))).
  rewrite !str_app, IH. reflexivity.
Qed.

(* ranges *)
Lemma q_clean : clean "?". Proof. split; reflexivity. Qed.
Lemma fn_rang_param_clean left incl smin smax ps : clean smin -> clean smax ->
  fn_rang_param o2 left (bound_text incl smin smax) ps =
  (if String.eqb smin "?" || String.eqb smax "?" then
     match ps with
     | [] => Panic "rangParam: params[0]"
     | p :: _ => match p with VInt _ | VFloat _ => Ret (range_text left incl smin smax smin smax, None) | _ => Ret (left ++ " BETWEEN " ++ smin ++ " AND " ++ smax, None) end
     end
   else Ret (rang_by_text o2 left incl smin smax)).
Proof.
  intros Ca Cb. unfold fn_rang_param. rewrite rang_core_bound, (split_clean smin smax Ca Cb).
  rewrite (proj1 (trim_clean smin Ca)), (proj2 (trim_clean smax Cb)). reflexivity.
Qed.

Lemma rparam_int z b fz s ps : render_param o2 (E (VInt z) Literal VNil b fz) = Ret (s, ps, None) -> s = "?" /\ ps = [VInt z].
Proof. apply (rparam_const (E (VInt z) Literal VNil b fz) (VInt z) s ps eq_refl). Qed.

Theorem render_param_text_sz : forall n e, esize e <= n -> forall k ts a ps, trp e k = Some (ts, a, ps) ->
  forall s ps', render_param o2 e = Ret (s, ps', None) -> str s = ptxt e /\ ps' = ps.
Proof.
  induction n as [|n IH]; intros e Hn k ts a ps T s ps' R; [destruct e; cbn in Hn; lia|].
  destruct e as [l op rt b fz]. cbn [esize] in Hn. cbn [trp] in T.
  destruct (rp_inv _ _ _ _ _ _ _ R) as [lf [lp [rtx [rp [Hl [Hr Hnode]]]]]].
  destruct op; try discriminate.
  - (* And *)
    destruct l as [ |?|?|?|?|?|x|?|? ? ?]; try discriminate. destruct rt as [ |?|?|?|?|?|y|?|? ? ?]; try discriminate.
    destruct (trp x k) as [[[tx ax] px]|] eqn:Tx; [|discriminate]. destruct (trp y (k + List.length px)) as [[[ty ay] py]|] eqn:Ty; [|discriminate].
    injection T as <- <- <-. cbn [vsize] in Hn. rewrite ser_param_exp in Hl, Hr.
    destruct (IH x ltac:(lia) k tx ax px Tx lf lp Hl) as [Ex ->]. destruct (IH y ltac:(lia) _ ty ay py Ty rtx rp Hr) as [Ey ->].
    destruct (rp_node_plain _ And _ _ _ _ _ _ _ _ ltac:(discriminate) ltac:(discriminate) eq_refl Hnode) as [Hs Ep]. subst ps'.
    cbn [no_wrap_op negb andb] in Hs.
    assert (Sx : is_simple (VExp x) = false) by (destruct x as [? opx ? ? ?]; cbn [trp] in Tx; destruct opx; try discriminate; reflexivity).
    assert (Sy : is_simple (VExp y) = false) by (destruct y as [? opy ? ? ?]; cbn [trp] in Ty; destruct opy; try discriminate; reflexivity).
    rewrite Sx, Sy in Hs. cbn [negb wrap_if] in Hs. inversion Hs; subst s. split; [|reflexivity].
    cbn [ptxt ptxt_v]. rewrite <- Ex, <- Ey. norm_str. reflexivity.
  - (* Or *)
    destruct l as [ |?|?|?|?|?|x|?|? ? ?]; try discriminate. destruct rt as [ |?|?|?|?|?|y|?|? ? ?]; try discriminate.
    destruct (trp x k) as [[[tx ax] px]|] eqn:Tx; [|discriminate]. destruct (trp y (k + List.length px)) as [[[ty ay] py]|] eqn:Ty; [|discriminate].
    injection T as <- <- <-. cbn [vsize] in Hn. rewrite ser_param_exp in Hl, Hr.
    destruct (IH x ltac:(lia) k tx ax px Tx lf lp Hl) as [Ex ->]. destruct (IH y ltac:(lia) _ ty ay py Ty rtx rp Hr) as [Ey ->].
    destruct (rp_node_plain _ Or _ _ _ _ _ _ _ _ ltac:(discriminate) ltac:(discriminate) eq_refl Hnode) as [Hs Ep]. subst ps'.
    cbn [no_wrap_op negb andb] in Hs.
    assert (Sx : is_simple (VExp x) = false) by (destruct x as [? opx ? ? ?]; cbn [trp] in Tx; destruct opx; try discriminate; reflexivity).
    assert (Sy : is_simple (VExp y) = false) by (destruct y as [? opy ? ? ?]; cbn [trp] in Ty; destruct opy; try discriminate; reflexivity).
    rewrite Sx, Sy in Hs. cbn [negb wrap_if] in Hs. inversion Hs; subst s. split; [|reflexivity].
    cbn [ptxt ptxt_v]. rewrite <- Ex, <- Ey. norm_str. reflexivity.
  - (* Equals *)
    destruct (field_of l) as [f|] eqn:Fl; [|discriminate]. destruct rt as [ |?|?|?|?|?|lf0|?|? ? ?]; try discriminate. cbn [cmp_text] in T.
    destruct (const_param lf0) as [v|] eqn:C; [|discriminate]. injection T as <- <- <-.
    destruct (field_of_inv l f Fl) as [b1 [f1 ->]]. rewrite ser_param_exp in Hl, Hr.
    destruct (rparam_col _ _ _ _ _ Hl) as [-> ->]. destruct (rparam_const lf0 v _ _ C Hr) as [-> ->].
    destruct (rp_node_plain _ Equals _ _ _ _ _ _ _ _ ltac:(discriminate) ltac:(discriminate) eq_refl Hnode) as [Hs Ep]. subst ps'.
    assert (Sl : is_simple (VExp lf0) = true) by (destruct lf0 as [l0 op0 ? ? ?]; destruct l0; try discriminate; destruct op0; try discriminate; reflexivity).
    rewrite col_simple, Sl in Hs. cbn [no_wrap_op negb andb wrap_if] in Hs. inversion Hs; subst s. split; [|reflexivity].
    cbn [ptxt fname field_of optext]. fin.
  - (* Like *)
    destruct (field_of l) as [f|] eqn:Fl; [|discriminate]. destruct rt as [ |?|?|?|?|?|p|?|? ? ?]; try discriminate. destruct p as [l2 op2 r2 b2 f2].
    destruct l2; try discriminate; destruct op2; try discriminate; destruct r2; try discriminate.
    destruct (is_regex_text s0) eqn:Rg; [discriminate|]. injection T as <- <- <-.
    destruct (field_of_inv l f Fl) as [b1 [f1 ->]]. rewrite ser_param_exp in Hl, Hr.
    destruct (rparam_col _ _ _ _ _ Hl) as [-> ->].
    assert (Tr : is_regex_text (translate s0) = false) by (unfold translate; rewrite translate_regexness; exact Rg).
    unfold rp_node in Hnode.
    destruct (rparam_wild _ _ _ _ _ Hr) as [[-> [-> ->]]|[Ne [-> ->]]].
    + change (String.eqb "'*'" "'*'") with true in Hnode. cbv iota beta in Hnode. change (is_regex_text "*") with false in Hnode. cbv iota in Hnode. cbn [bind] in Hnode.
      cbn [no_wrap_op negb andb is_simple e_op wrap_if app] in Hnode. fold (translate "*") in Hnode. change (translate "*") with "%" in Hnode.
      change (is_regex_text "%") with false in Hnode. cbv iota in Hnode. inversion Hnode; subst. split; [|reflexivity]. cbn [ptxt fname field_of]. fin.
    + cbv iota beta in Hnode. rewrite Rg in Hnode. cbn [bind] in Hnode.
      cbn [no_wrap_op negb andb is_simple e_op wrap_if app] in Hnode. fold (translate s0) in Hnode. rewrite Tr in Hnode.
      inversion Hnode; subst. split; [|reflexivity]. cbn [ptxt fname field_of]. fin.
  - (* Not *)
    destruct l as [ |?|?|?|?|?|x|?|? ? ?]; try discriminate. destruct rt; try discriminate.
    destruct (trp x k) as [[[tx ax] px]|] eqn:Tx; [|discriminate]. injection T as <- <- <-. cbn [vsize] in Hn. rewrite ser_param_exp in Hl.
    destruct (IH x ltac:(lia) k tx ax px Tx lf lp Hl) as [Ex ->]. cbn [ser_param] in Hr. inversion Hr; subst rtx rp.
    destruct (rp_node_plain _ Not _ _ _ _ _ _ _ _ ltac:(discriminate) ltac:(discriminate) eq_refl Hnode) as [Hs Ep]. subst ps'.
    cbn [no_wrap_op negb andb wrap_if] in Hs. inversion Hs; subst s. split; [|rewrite app_nil_r; reflexivity].
    cbn [ptxt ptxt_v]. rewrite <- Ex. norm_str. reflexivity.
  - (* Range *)
    destruct (field_of l) as [f|] eqn:Fl; [|discriminate]. destruct rt as [ |?|?|?|?|?|?|?|lo hi incl]; try discriminate. cbv zeta in T.
    destruct (field_of_inv l f Fl) as [b1 [f1 ->]]. rewrite ser_param_exp in Hl. destruct (rparam_col _ _ _ _ _ Hl) as [-> ->].
    rewrite ser_param_bound_eq in Hr.
    destruct (ser_param o2 lo) as [[[smin pmin] [e1|]]|] eqn:Slo; cbn [bind] in Hr; try discriminate Hr.
    destruct (ser_param o2 hi) as [[[smax pmax] [e2|]]|] eqn:Shi; cbn [bind] in Hr; try discriminate Hr.
    inversion Hr; subst rtx rp. unfold rp_node in Hnode. cbn [bind no_wrap_op negb andb wrap_if app] in Hnode.
    cbn [ptxt fname field_of].
    destruct (int_bound lo) as [a0|] eqn:Ba; destruct (int_bound hi) as [b0|] eqn:Bb.
    + assert (T' : ps = [VInt a0; VInt b0]) by (destruct (is_star lo), (is_star hi); inversion T; reflexivity). subst ps.
      destruct (int_bound_inv lo a0 Ba) as [b2 [f2 ->]]. destruct (int_bound_inv hi b0 Bb) as [b3 [f3 ->]].
      rewrite ser_param_exp in Slo, Shi. destruct (rparam_int _ _ _ _ _ Slo) as [-> ->]. destruct (rparam_int _ _ _ _ _ Shi) as [-> ->].
      rewrite (fn_rang_param_clean _ _ _ _ _ q_clean q_clean) in Hnode. cbn [String.eqb Ascii.eqb Bool.eqb orb app bind fst snd] in Hnode.
      unfold range_text in Hnode. change (String.eqb "?" "'*'") with false in Hnode. cbv iota in Hnode.
      inversion Hnode; subst. split; [|reflexivity]. destruct incl; fin.
    + destruct (is_star hi) eqn:Sh; [|destruct (is_star lo); discriminate].
      assert (T' : ps = [VInt a0]) by (destruct (is_star lo); inversion T; reflexivity). subst ps.
      destruct (int_bound_inv lo a0 Ba) as [b2 [f2 ->]]. destruct (star_bound hi Sh) as [b3 [f3 ->]].
      rewrite ser_param_exp in Slo, Shi. destruct (rparam_int _ _ _ _ _ Slo) as [-> ->].
      destruct (rparam_wild _ _ _ _ _ Shi) as [[_ [-> ->]]|[Ne _]]; [|discriminate Ne].
      rewrite (fn_rang_param_clean _ _ _ _ _ q_clean star_clean) in Hnode. cbn [String.eqb Ascii.eqb Bool.eqb orb app bind fst snd] in Hnode.
      unfold range_text in Hnode. change (String.eqb "?" "'*'") with false in Hnode. change (String.eqb "'*'" "'*'") with true in Hnode. cbv iota in Hnode.
      inversion Hnode; subst. split; [|reflexivity]. destruct incl; fin.
    + destruct (is_star lo) eqn:Sl; [|discriminate].
      assert (T' : ps = [VInt b0]) by (destruct (is_star hi); inversion T; reflexivity). subst ps.
      destruct (star_bound lo Sl) as [b2 [f2 ->]]. destruct (int_bound_inv hi b0 Bb) as [b3 [f3 ->]].
      rewrite ser_param_exp in Slo, Shi. destruct (rparam_int _ _ _ _ _ Shi) as [-> ->].
      destruct (rparam_wild _ _ _ _ _ Slo) as [[_ [-> ->]]|[Ne _]]; [|discriminate Ne].
      rewrite (fn_rang_param_clean _ _ _ _ _ star_clean q_clean) in Hnode. cbn [String.eqb Ascii.eqb Bool.eqb orb app bind fst snd] in Hnode.
      unfold range_text in Hnode. change (String.eqb "'*'" "'*'") with true in Hnode. cbv iota in Hnode.
      inversion Hnode; subst. split; [|reflexivity]. destruct incl; fin.
    + destruct (is_star lo), (is_star hi); discriminate.
  - (* Must *)
    destruct l as [ |?|?|?|?|?|x|?|? ? ?]; try discriminate. destruct rt; try discriminate. cbn [vsize] in Hn. rewrite ser_param_exp in Hl.
    destruct (IH x ltac:(lia) k ts a ps T lf lp Hl) as [Ex ->]. cbn [ser_param] in Hr. inversion Hr; subst rtx rp.
    destruct (rp_node_plain _ Must _ _ _ _ _ _ _ _ ltac:(discriminate) ltac:(discriminate) eq_refl Hnode) as [Hs Ep]. subst ps'.
    cbn [no_wrap_op negb andb wrap_if] in Hs. inversion Hs; subst s. split; [|rewrite app_nil_r; reflexivity]. cbn [ptxt ptxt_v]. exact Ex.
  - (* MustNot *)
    destruct l as [ |?|?|?|?|?|x|?|? ? ?]; try discriminate. destruct rt; try discriminate.
    destruct (trp x k) as [[[tx ax] px]|] eqn:Tx; [|discriminate]. injection T as <- <- <-. cbn [vsize] in Hn. rewrite ser_param_exp in Hl.
    destruct (IH x ltac:(lia) k tx ax px Tx lf lp Hl) as [Ex ->]. cbn [ser_param] in Hr. inversion Hr; subst rtx rp.
    destruct (rp_node_plain _ MustNot _ _ _ _ _ _ _ _ ltac:(discriminate) ltac:(discriminate) eq_refl Hnode) as [Hs Ep]. subst ps'.
    cbn [no_wrap_op negb andb wrap_if] in Hs. inversion Hs; subst s. split; [|rewrite app_nil_r; reflexivity].
    cbn [ptxt ptxt_v]. rewrite <- Ex. norm_str. reflexivity.
  - (* Greater *)
    destruct (field_of l) as [f|] eqn:Fl; [|discriminate]. destruct rt as [ |?|?|?|?|?|lf0|?|? ? ?]; try discriminate. cbn [cmp_text] in T.
    destruct (const_param lf0) as [v|] eqn:C; [|discriminate]. injection T as <- <- <-.
    destruct (field_of_inv l f Fl) as [b1 [f1 ->]]. rewrite ser_param_exp in Hl, Hr.
    destruct (rparam_col _ _ _ _ _ Hl) as [-> ->]. destruct (rparam_const lf0 v _ _ C Hr) as [-> ->].
    destruct (rp_node_plain _ Greater _ _ _ _ _ _ _ _ ltac:(discriminate) ltac:(discriminate) eq_refl Hnode) as [Hs Ep]. subst ps'.
    assert (Sl : is_simple (VExp lf0) = true) by (destruct lf0 as [l0 op0 ? ? ?]; destruct l0; try discriminate; destruct op0; try discriminate; reflexivity).
    rewrite col_simple, Sl in Hs. cbn [no_wrap_op negb andb wrap_if] in Hs. inversion Hs; subst s. split; [|reflexivity].
    cbn [ptxt fname field_of optext]. fin.
  - (* Less *)
    destruct (field_of l) as [f|] eqn:Fl; [|discriminate]. destruct rt as [ |?|?|?|?|?|lf0|?|? ? ?]; try discriminate. cbn [cmp_text] in T.
    destruct (const_param lf0) as [v|] eqn:C; [|discriminate]. injection T as <- <- <-.
    destruct (field_of_inv l f Fl) as [b1 [f1 ->]]. rewrite ser_param_exp in Hl, Hr.
    destruct (rparam_col _ _ _ _ _ Hl) as [-> ->]. destruct (rparam_const lf0 v _ _ C Hr) as [-> ->].
    destruct (rp_node_plain _ Less _ _ _ _ _ _ _ _ ltac:(discriminate) ltac:(discriminate) eq_refl Hnode) as [Hs Ep]. subst ps'.
    assert (Sl : is_simple (VExp lf0) = true) by (destruct lf0 as [l0 op0 ? ? ?]; destruct l0; try discriminate; destruct op0; try discriminate; reflexivity).
    rewrite col_simple, Sl in Hs. cbn [no_wrap_op negb andb wrap_if] in Hs. inversion Hs; subst s. split; [|reflexivity].
    cbn [ptxt fname field_of optext]. fin.
  - (* GreaterEq *)
    destruct (field_of l) as [f|] eqn:Fl; [|discriminate]. destruct rt as [ |?|?|?|?|?|lf0|?|? ? ?]; try discriminate. cbn [cmp_text] in T.
    destruct (const_param lf0) as [v|] eqn:C; [|discriminate]. injection T as <- <- <-.
    destruct (field_of_inv l f Fl) as [b1 [f1 ->]]. rewrite ser_param_exp in Hl, Hr.
    destruct (rparam_col _ _ _ _ _ Hl) as [-> ->]. destruct (rparam_const lf0 v _ _ C Hr) as [-> ->].
    destruct (rp_node_plain _ GreaterEq _ _ _ _ _ _ _ _ ltac:(discriminate) ltac:(discriminate) eq_refl Hnode) as [Hs Ep]. subst ps'.
    assert (Sl : is_simple (VExp lf0) = true) by (destruct lf0 as [l0 op0 ? ? ?]; destruct l0; try discriminate; destruct op0; try discriminate; reflexivity).
    rewrite col_simple, Sl in Hs. cbn [no_wrap_op negb andb wrap_if] in Hs. inversion Hs; subst s. split; [|reflexivity].
    cbn [ptxt fname field_of optext]. fin.
  - (* LessEq *)
    destruct (field_of l) as [f|] eqn:Fl; [|discriminate]. destruct rt as [ |?|?|?|?|?|lf0|?|? ? ?]; try discriminate. cbn [cmp_text] in T.
    destruct (const_param lf0) as [v|] eqn:C; [|discriminate]. injection T as <- <- <-.
    destruct (field_of_inv l f Fl) as [b1 [f1 ->]]. rewrite ser_param_exp in Hl, Hr.
    destruct (rparam_col _ _ _ _ _ Hl) as [-> ->]. destruct (rparam_const lf0 v _ _ C Hr) as [-> ->].
    destruct (rp_node_plain _ LessEq _ _ _ _ _ _ _ _ ltac:(discriminate) ltac:(discriminate) eq_refl Hnode) as [Hs Ep]. subst ps'.
    assert (Sl : is_simple (VExp lf0) = true) by (destruct lf0 as [l0 op0 ? ? ?]; destruct l0; try discriminate; destruct op0; try discriminate; reflexivity).
    rewrite col_simple, Sl in Hs. cbn [no_wrap_op negb andb wrap_if] in Hs. inversion Hs; subst s. split; [|reflexivity].
    cbn [ptxt fname field_of optext]. fin.
  - (* In *)
    destruct (field_of l) as [f|] eqn:Fl; [|discriminate]. destruct rt as [ |?|?|?|?|?|p|?|? ? ?]; try discriminate. destruct p as [l2 op2 r2 b2 f2].
    destruct l2 as [ |?|?|?|?|?|?|lits|? ? ?]; try discriminate. destruct lits as [|x lits]; try discriminate.
    destruct op2; try discriminate; destruct r2; try discriminate.
    destruct (consts_param (x :: lits)) as [vs|] eqn:C; [|discriminate]. injection T as <- <- <-.
    destruct (field_of_inv l f Fl) as [b1 [f1 ->]]. rewrite ser_param_exp in Hl, Hr. destruct (rparam_col _ _ _ _ _ Hl) as [-> ->].
    destruct (rp_inv _ _ _ _ _ _ _ Hr) as [lf2 [lp2 [rt2 [rp2 [Hl2 [Hr2 Hn2]]]]]].
    rewrite serp_list_eq in Hl2. destruct (serp_list_inv2 _ _ _ _ _ _ C Hl2) as [El Ep2]. cbn [rev app] in El, Ep2.
    cbn [ser_param] in Hr2. inversion Hr2; subst rt2 rp2.
    destruct (rp_node_plain _ Tables.List _ _ _ _ _ _ _ _ ltac:(discriminate) ltac:(discriminate) eq_refl Hn2) as [Hs2 Ep3]. subst rp.
    cbn [no_wrap_op negb andb wrap_if] in Hs2. inversion Hs2; subst rtx.
    destruct (rp_node_plain _ Tables.In _ _ _ _ _ _ _ _ ltac:(discriminate) ltac:(discriminate) eq_refl Hnode) as [Hs Ep]. subst ps'.
    cbn [no_wrap_op negb andb wrap_if] in Hs. inversion Hs; subst s. subst lf2 lp2. split; [|rewrite app_nil_r; reflexivity].
    cbn [ptxt fname field_of pcount List.length]. rewrite <- str_join_qms. fin.
Qed.

Theorem render_param_text e ts a ps s ps' : trp e 1 = Some (ts, a, ps) -> render_param o2 e = Ret (s, ps', None) -> str s = ptxt e /\ ps' = ps.
Proof. intros T R. apply (render_param_text_sz (esize e) e (le_n _) 1 ts a ps T s ps' R). Qed.
End T.
