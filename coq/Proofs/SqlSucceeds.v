(* C03, first clause, on the model: for a tree of the filterable fragment whose leaf texts the literal function accepts (valid
   UTF-8, no NUL: leaves_ok) and whose field names are non-empty and free of double quotes, the inline renderer SUCCEEDS. *)
Require Import Parser ParserShape Render RenderStr RenderStr2 RenderCount RenderCountP RenderParamTotal RenderNum RenderEmpty RenderInline.
Require Import PgModel QuerySem SqlSem SqlFrag Decimal SqlLex SqlSemProof SqlText.
From Coq Require Import List Ascii String ZArith Bool Lia Arith.
Import ListNotations.
Open Scope string_scope.

Section S.
Variable o2 : oracle2.

Definition lit_ok (t : string) : bool := valid_utf8 o2 t && negb (contains_char (ascii_of_nat 0) t).
Definition col_ok (f : string) : bool := negb (String.eqb f "") && negb (contains_char """"%char f) && lit_ok (dqs f).
Definition const_ok (lf : Parser.expr) : bool :=
  match lf with
  | E (VInt z) _ _ _ _ => lit_ok (z_to_string z)
  | E (VStr s) _ _ _ _ => lit_ok (sqs s)
  | _ => true
  end.
Definition bound_ok (v : value) : bool := match v with VExp lf => const_ok lf | _ => true end.
Fixpoint leaves_ok (e : Parser.expr) : bool :=
  match e with
  | E l op rt _ _ =>
    match op with
    | And | Or => leaves_ok_v l && leaves_ok_v rt
    | Not | MustNot | Must => leaves_ok_v l
    | Tables.In => col_ok (fname l) && match rt with VExp (E (VList lits) _ _ _ _) => forallb const_ok lits | _ => true end
    | Range => col_ok (fname l) && match rt with VBound lo hi _ => bound_ok lo && bound_ok hi | _ => true end
    | _ => col_ok (fname l) && bound_ok rt
    end
  end
with leaves_ok_v (v : value) : bool := match v with VExp e => leaves_ok e | _ => true end.

Lemma fn_literal_ok t r : lit_ok t = true -> fn_literal o2 t r = (t, None).
Proof. unfold lit_ok, fn_literal. intros H. apply andb_true_iff in H. destruct H as [H1 H2]. apply negb_true_iff in H2. rewrite H1, H2. reflexivity. Qed.

Lemma render_col_ok f b fz : col_ok f = true -> render o2 (E (VCol f) Literal VNil b fz) = Ret (dqs f, None).
Proof.
  unfold col_ok. intros H. apply andb_true_iff in H. destruct H as [H H3]. apply andb_true_iff in H. destruct H as [H1 H2].
  apply negb_true_iff in H1, H2. rewrite render_eq. cbn [serialize]. unfold ser_column. rewrite H1, H2. cbn [bind]. unfold rn_node.
  cbn [no_wrap_op negb andb wrap_if pg_fn]. rewrite (fn_literal_ok _ _ H3). reflexivity.
Qed.
Lemma render_const_ok lf tc ac : const_sql lf = Some (tc, ac) -> const_ok lf = true -> exists s, render o2 lf = Ret (s, None).
Proof.
  destruct lf as [l op rt b fz]. destruct l; try discriminate; destruct op; try discriminate; destruct rt; try discriminate; cbn [const_sql const_ok]; intros _ H.
  - exists (z_to_string z). rewrite render_eq. cbn [serialize bind]. unfold rn_node. cbn [no_wrap_op negb andb wrap_if pg_fn]. rewrite (fn_literal_ok _ _ H). reflexivity.
  - exists (sqs s). rewrite render_eq. cbn [serialize bind]. unfold rn_node. cbn [no_wrap_op negb andb wrap_if pg_fn]. fold (sqs s). rewrite (fn_literal_ok _ _ H). reflexivity.
Qed.

Lemma ser_list_ok : forall l ts as_ acc, consts_sql l = Some (ts, as_) -> forallb const_ok l = true -> exists s, ser_list o2 l acc = Ret (s, None).
Proof.
  induction l as [|x l IH]; intros ts as_ acc C H; cbn [ser_list]; [eexists; reflexivity|].
  cbn [consts_sql] in C. destruct (const_sql x) as [[t a]|] eqn:Cx; [|discriminate]. destruct (consts_sql l) as [[ts' as']|] eqn:Cl; [|discriminate].
  cbn [forallb] in H. apply andb_true_iff in H. destruct H as [Hx Hl].
  destruct (render_const_ok x t a Cx Hx) as [s R]. rewrite R. cbn [bind]. apply (IH ts' as' _ eq_refl Hl).
Qed.

Theorem render_succeeds_sz : forall n e, esize e <= n -> forall ts a, tr e = Some (ts, a) -> text_ok e = true -> leaves_ok e = true ->
  exists s, render o2 e = Ret (s, None).
Proof.
  induction n as [|n IH]; intros e Hn ts a T Ok Lv; [destruct e; cbn in Hn; lia|].
  destruct e as [l op rt b fz]. cbn [esize] in Hn. cbn [tr] in T. rewrite render_eq. unfold rn_node.
  destruct op; try discriminate.
  - (* And *)
    destruct l as [ |?|?|?|?|?|x|?|? ? ?]; try discriminate. destruct rt as [ |?|?|?|?|?|y|?|? ? ?]; try discriminate.
    destruct (tr x) as [[tx ax]|] eqn:Tx; [|discriminate]. destruct (tr y) as [[ty ay]|] eqn:Ty; [|discriminate].
    cbn [text_ok text_ok_v] in Ok. apply andb_true_iff in Ok. destruct Ok as [Ox Oy].
    cbn [leaves_ok leaves_ok_v] in Lv. apply andb_true_iff in Lv. destruct Lv as [Lx Ly]. cbn [vsize] in Hn.
    rewrite !ser_exp. destruct (IH x ltac:(lia) tx ax Tx Ox Lx) as [sx Rx]. destruct (IH y ltac:(lia) ty ay Ty Oy Ly) as [sy Ry].
    rewrite Rx, Ry. cbn [bind pg_fn]. eexists; reflexivity.
  - (* Or *)
    destruct l as [ |?|?|?|?|?|x|?|? ? ?]; try discriminate. destruct rt as [ |?|?|?|?|?|y|?|? ? ?]; try discriminate.
    destruct (tr x) as [[tx ax]|] eqn:Tx; [|discriminate]. destruct (tr y) as [[ty ay]|] eqn:Ty; [|discriminate].
    cbn [text_ok text_ok_v] in Ok. apply andb_true_iff in Ok. destruct Ok as [Ox Oy].
    cbn [leaves_ok leaves_ok_v] in Lv. apply andb_true_iff in Lv. destruct Lv as [Lx Ly]. cbn [vsize] in Hn.
    rewrite !ser_exp. destruct (IH x ltac:(lia) tx ax Tx Ox Lx) as [sx Rx]. destruct (IH y ltac:(lia) ty ay Ty Oy Ly) as [sy Ry].
    rewrite Rx, Ry. cbn [bind pg_fn]. eexists; reflexivity.
  - (* Equals *)
    destruct (field_of l) as [f|] eqn:Fl; [|discriminate]. destruct rt as [ |?|?|?|?|?|lf0|?|? ? ?]; try discriminate. cbn [cmp_text] in T.
    destruct (const_sql lf0) as [[tc ac]|] eqn:C; [|discriminate].
    cbn [leaves_ok bound_ok] in Lv. unfold fname in Lv. rewrite Fl in Lv. apply andb_true_iff in Lv. destruct Lv as [Lc Lk].
    destruct (field_of_inv l f Fl) as [b1 [f1 ->]]. rewrite !ser_exp, (render_col_ok f _ _ Lc).
    destruct (render_const_ok lf0 tc ac C Lk) as [s R]. rewrite R. cbn [bind pg_fn]. eexists; reflexivity.
  - (* Like *)
    destruct (field_of l) as [f|] eqn:Fl; [|discriminate]. destruct rt as [ |?|?|?|?|?|p|?|? ? ?]; try discriminate. destruct p as [l2 op2 r2 b2 f2].
    destruct l2; try discriminate; destruct op2; try discriminate; destruct r2; try discriminate.
    cbn [text_ok] in Ok. cbn [leaves_ok bound_ok const_ok] in Lv. unfold fname in Lv. rewrite Fl in Lv. apply andb_true_iff in Lv. destruct Lv as [Lc Lk].
    destruct (field_of_inv l f Fl) as [b1 [f1 ->]]. rewrite !ser_exp, (render_col_ok f _ _ Lc).
    assert (R : render o2 (E (VStr s) Wild VNil b2 f2) = Ret (sqs s, None)).
    { rewrite render_eq. cbn [serialize bind]. unfold rn_node. cbn [no_wrap_op negb andb wrap_if pg_fn]. fold (sqs s). rewrite (fn_literal_ok _ _ Lk). reflexivity. }
    rewrite R. cbn [bind pg_fn no_wrap_op negb andb is_simple e_op wrap_if]. rewrite (fn_like_plain _ _ Ok). eexists; reflexivity.
  - (* Not *)
    destruct l as [ |?|?|?|?|?|x|?|? ? ?]; try discriminate. destruct rt; try discriminate.
    destruct (tr x) as [[tx ax]|] eqn:Tx; [|discriminate]. cbn [text_ok text_ok_v] in Ok. cbn [leaves_ok leaves_ok_v] in Lv. cbn [vsize] in Hn.
    rewrite ser_exp. destruct (IH x ltac:(lia) tx ax Tx Ok Lv) as [sx Rx]. rewrite Rx. cbn [bind serialize pg_fn]. eexists; reflexivity.
  - (* Range *)
    destruct (field_of l) as [f|] eqn:Fl; [|discriminate]. destruct rt as [ |?|?|?|?|?|?|?|lo hi incl]; try discriminate. cbv zeta in T.
    cbn [text_ok] in Ok. apply andb_true_iff in Ok. destruct Ok as [Olo Ohi]. unfold bound_int64 in Olo, Ohi.
    cbn [leaves_ok] in Lv. unfold fname in Lv. rewrite Fl in Lv. apply andb_true_iff in Lv. destruct Lv as [Lc Lb]. apply andb_true_iff in Lb. destruct Lb as [Llo Lhi].
    destruct (field_of_inv l f Fl) as [b1 [f1 ->]]. rewrite ser_exp, (render_col_ok f _ _ Lc). cbn [bind]. rewrite ser_bound_eq.
    assert (Star : forall b3 f3, lit_ok (sqs "*") = true -> render o2 (E (VStr "*") Wild VNil b3 f3) = Ret ("'*'", None)).
    { intros b3 f3 H. rewrite render_eq. cbn [serialize bind]. unfold rn_node. cbn [no_wrap_op negb andb wrap_if pg_fn]. fold (sqs "*"). rewrite (fn_literal_ok _ _ H). reflexivity. }
    assert (IntR : forall z b3 f3, lit_ok (z_to_string z) = true -> render o2 (E (VInt z) Literal VNil b3 f3) = Ret (z_to_string z, None)).
    { intros z b3 f3 H. rewrite render_eq. cbn [serialize bind]. unfold rn_node. cbn [no_wrap_op negb andb wrap_if pg_fn]. rewrite (fn_literal_ok _ _ H). reflexivity. }
    destruct (int_bound lo) as [a0|] eqn:Ba; destruct (int_bound hi) as [b0|] eqn:Bb.
    + destruct (int_bound_inv lo a0 Ba) as [b2 [f2 ->]]. destruct (int_bound_inv hi b0 Bb) as [b3 [f3 ->]].
      cbn [bound_ok const_ok] in Llo, Lhi. rewrite !ser_exp, (IntR a0 _ _ Llo), (IntR b0 _ _ Lhi). cbn [bind pg_fn no_wrap_op negb andb wrap_if].
      rewrite (fn_rang_clean o2 _ _ _ _ (zs_clean a0) (zs_clean b0)). unfold rang_by_text, to_ints. rewrite (atoi_zs a0 Olo), (atoi_zs b0 Ohi). eexists; reflexivity.
    + destruct (is_star hi) eqn:Sh; [|destruct (is_star lo); discriminate].
      destruct (int_bound_inv lo a0 Ba) as [b2 [f2 ->]]. destruct (star_bound hi Sh) as [b3 [f3 ->]].
      cbn [bound_ok const_ok] in Llo, Lhi. rewrite !ser_exp, (IntR a0 _ _ Llo), (Star _ _ Lhi). cbn [bind pg_fn no_wrap_op negb andb wrap_if].
      rewrite (fn_rang_clean o2 _ _ _ _ (zs_clean a0) star_clean). unfold rang_by_text, to_ints. rewrite (atoi_zs a0 Olo), atoi_star.
      change (String.eqb "'*'" "'*'") with true. cbv iota. eexists; reflexivity.
    + destruct (is_star lo) eqn:Sl; [|discriminate].
      destruct (star_bound lo Sl) as [b2 [f2 ->]]. destruct (int_bound_inv hi b0 Bb) as [b3 [f3 ->]].
      cbn [bound_ok const_ok] in Llo, Lhi. rewrite !ser_exp, (Star _ _ Llo), (IntR b0 _ _ Lhi). cbn [bind pg_fn no_wrap_op negb andb wrap_if].
      rewrite (fn_rang_clean o2 _ _ _ _ star_clean (zs_clean b0)). unfold rang_by_text, to_ints. rewrite (atoi_zs b0 Ohi), atoi_star.
      change (String.eqb "'*'" "'*'") with true. cbv iota. eexists; reflexivity.
    + destruct (is_star lo), (is_star hi); discriminate.
  - (* Must *)
    destruct l as [ |?|?|?|?|?|x|?|? ? ?]; try discriminate. destruct rt; try discriminate.
    cbn [text_ok text_ok_v] in Ok. cbn [leaves_ok leaves_ok_v] in Lv. cbn [vsize] in Hn.
    rewrite ser_exp. destruct (IH x ltac:(lia) ts a T Ok Lv) as [sx Rx]. rewrite Rx. cbn [bind serialize pg_fn]. eexists; reflexivity.
  - (* MustNot *)
    destruct l as [ |?|?|?|?|?|x|?|? ? ?]; try discriminate. destruct rt; try discriminate.
    destruct (tr x) as [[tx ax]|] eqn:Tx; [|discriminate]. cbn [text_ok text_ok_v] in Ok. cbn [leaves_ok leaves_ok_v] in Lv. cbn [vsize] in Hn.
    rewrite ser_exp. destruct (IH x ltac:(lia) tx ax Tx Ok Lv) as [sx Rx]. rewrite Rx. cbn [bind serialize pg_fn]. eexists; reflexivity.
  - (* Greater *)
    destruct (field_of l) as [f|] eqn:Fl; [|discriminate]. destruct rt as [ |?|?|?|?|?|lf0|?|? ? ?]; try discriminate. cbn [cmp_text] in T.
    destruct (const_sql lf0) as [[tc ac]|] eqn:C; [|discriminate].
    cbn [leaves_ok bound_ok] in Lv. unfold fname in Lv. rewrite Fl in Lv. apply andb_true_iff in Lv. destruct Lv as [Lc Lk].
    destruct (field_of_inv l f Fl) as [b1 [f1 ->]]. rewrite !ser_exp, (render_col_ok f _ _ Lc).
    destruct (render_const_ok lf0 tc ac C Lk) as [s R]. rewrite R. cbn [bind pg_fn]. eexists; reflexivity.
  - (* Less *)
    destruct (field_of l) as [f|] eqn:Fl; [|discriminate]. destruct rt as [ |?|?|?|?|?|lf0|?|? ? ?]; try discriminate. cbn [cmp_text] in T.
    destruct (const_sql lf0) as [[tc ac]|] eqn:C; [|discriminate].
    cbn [leaves_ok bound_ok] in Lv. unfold fname in Lv. rewrite Fl in Lv. apply andb_true_iff in Lv. destruct Lv as [Lc Lk].
    destruct (field_of_inv l f Fl) as [b1 [f1 ->]]. rewrite !ser_exp, (render_col_ok f _ _ Lc).
    destruct (render_const_ok lf0 tc ac C Lk) as [s R]. rewrite R. cbn [bind pg_fn]. eexists; reflexivity.
  - (* GreaterEq *)
    destruct (field_of l) as [f|] eqn:Fl; [|discriminate]. destruct rt as [ |?|?|?|?|?|lf0|?|? ? ?]; try discriminate. cbn [cmp_text] in T.
    destruct (const_sql lf0) as [[tc ac]|] eqn:C; [|discriminate].
    cbn [leaves_ok bound_ok] in Lv. unfold fname in Lv. rewrite Fl in Lv. apply andb_true_iff in Lv. destruct Lv as [Lc Lk].
    destruct (field_of_inv l f Fl) as [b1 [f1 ->]]. rewrite !ser_exp, (render_col_ok f _ _ Lc).
    destruct (render_const_ok lf0 tc ac C Lk) as [s R]. rewrite R. cbn [bind pg_fn]. eexists; reflexivity.
  - (* LessEq *)
    destruct (field_of l) as [f|] eqn:Fl; [|discriminate]. destruct rt as [ |?|?|?|?|?|lf0|?|? ? ?]; try discriminate. cbn [cmp_text] in T.
    destruct (const_sql lf0) as [[tc ac]|] eqn:C; [|discriminate].
    cbn [leaves_ok bound_ok] in Lv. unfold fname in Lv. rewrite Fl in Lv. apply andb_true_iff in Lv. destruct Lv as [Lc Lk].
    destruct (field_of_inv l f Fl) as [b1 [f1 ->]]. rewrite !ser_exp, (render_col_ok f _ _ Lc).
    destruct (render_const_ok lf0 tc ac C Lk) as [s R]. rewrite R. cbn [bind pg_fn]. eexists; reflexivity.
  - (* In *)
    destruct (field_of l) as [f|] eqn:Fl; [|discriminate]. destruct rt as [ |?|?|?|?|?|p|?|? ? ?]; try discriminate. destruct p as [l2 op2 r2 b2 f2].
    destruct l2 as [ |?|?|?|?|?|?|lits|? ? ?]; try discriminate. destruct lits as [|x lits]; try discriminate.
    destruct op2; try discriminate; destruct r2; try discriminate.
    destruct (consts_sql (x :: lits)) as [[cts cas]|] eqn:C; [|discriminate].
    cbn [leaves_ok] in Lv. unfold fname in Lv. rewrite Fl in Lv. apply andb_true_iff in Lv. destruct Lv as [Lc Lk].
    destruct (field_of_inv l f Fl) as [b1 [f1 ->]]. rewrite !ser_exp, (render_col_ok f _ _ Lc). cbn [bind].
    rewrite render_eq, ser_list_eq. destruct (ser_list_ok (x :: lits) cts cas [] C Lk) as [sl Rl]. rewrite Rl. cbn [bind serialize]. unfold rn_node.
    cbn [bind pg_fn]. eexists; reflexivity.
Qed.

Theorem render_succeeds e ts a : tr e = Some (ts, a) -> text_ok e = true -> leaves_ok e = true -> exists s, render o2 e = Ret (s, None).
Proof. intros T Ok Lv. apply (render_succeeds_sz (esize e) e (le_n _) ts a T Ok Lv). Qed.
End S.
